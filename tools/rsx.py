#!/usr/bin/env python3
"""rsx -- minimal Rust source indexer / extractor.

Works on source *text*: a tokenizer that knows comments, strings, raw strings,
byte strings, char literals vs lifetimes, and matches brackets.  It locates
items (fn / struct / enum / impl / const / macro_rules! / mod / trait / type /
static / use) inside a brace-delimited region and returns exact byte ranges of
the original text, so that extracted text is verbatim.

Nothing here interprets Rust; it only finds boundaries.
"""
import re, hashlib

class RsxError(Exception):
    pass

OPEN = {'(': ')', '[': ']', '{': '}'}
CLOSE = {')', ']', '}'}

def mask(text):
    """Return text with comments and the *contents* of string/char literals
    replaced by spaces (same length), so bracket matching and keyword search
    can be done with plain scans."""
    out = list(text)
    i, n = 0, len(text)
    def blank(a, b):
        for k in range(a, b):
            if out[k] != '\n':
                out[k] = ' '
    while i < n:
        c = text[i]
        if c == '/' and i + 1 < n and text[i+1] == '/':
            j = text.find('\n', i)
            if j < 0: j = n
            blank(i, j); i = j; continue
        if c == '/' and i + 1 < n and text[i+1] == '*':
            depth, j = 1, i + 2
            while j < n and depth:
                if text.startswith('/*', j): depth += 1; j += 2
                elif text.startswith('*/', j): depth -= 1; j += 2
                else: j += 1
            blank(i, j); i = j; continue
        # raw strings r"..." r#"..."# br#"..."#
        m = re.match(r'b?r(#*)"', text[i:i+40]) if c in 'br' else None
        if m and (i == 0 or not (text[i-1].isalnum() or text[i-1] == '_')):
            hashes = m.group(1)
            start = i + m.end()
            j = text.find('"' + hashes, start)
            if j < 0: raise RsxError('unterminated raw string')
            blank(start, j); i = j + 1 + len(hashes); continue
        if c == '"' or (c == 'b' and i + 1 < n and text[i+1] == '"' and
                        (i == 0 or not (text[i-1].isalnum() or text[i-1] == '_'))):
            j = i + (2 if c == 'b' else 1)
            start = j
            while j < n and text[j] != '"':
                j += 2 if text[j] == '\\' else 1
            blank(start, j); i = j + 1; continue
        if c == "'":
            # char literal or lifetime
            if i + 2 < n and text[i+1] == '\\':
                j = text.find("'", i + 2)
                # '\'' case
                if text[i+2] == "'" : j = text.find("'", i + 3)
                blank(i + 1, j); i = j + 1; continue
            if i + 2 < n and text[i+2] == "'":
                blank(i + 1, i + 2); i += 3; continue
            i += 1; continue
        i += 1
    return ''.join(out)

def match_close(m, i):
    """m = masked text, m[i] an opening bracket; return index of its closer."""
    stack = [OPEN[m[i]]]
    j = i + 1
    n = len(m)
    while j < n:
        c = m[j]
        if c in OPEN: stack.append(OPEN[c])
        elif c in CLOSE:
            if c != stack[-1]:
                raise RsxError('bracket mismatch at %d: got %r want %r' % (j, c, stack[-1]))
            stack.pop()
            if not stack: return j
        j += 1
    raise RsxError('unclosed bracket at %d' % i)

ITEM_KW = ('fn', 'struct', 'enum', 'union', 'impl', 'trait', 'mod', 'const', 'static',
           'type', 'use', 'macro_rules', 'extern')
_word = re.compile(r'[A-Za-z_][A-Za-z0-9_]*')

class Item:
    __slots__ = ('kind', 'name', 'header', 'start', 'sig', 'body_open', 'end', 'src')
    def __init__(s, **kw):
        for k, v in kw.items(): setattr(s, k, v)
    def text(s): return s.src.text[s.start:s.end]
    def text_noattr(s): return s.src.text[s.sig:s.end]
    def sig_text(s): return s.src.text[s.sig:s.body_open] if s.body_open is not None else s.src.text[s.sig:s.end]
    def body_text(s):
        if s.body_open is None: raise RsxError('item %s has no body' % s.name)
        return s.src.text[s.body_open:s.end]
    def inner(s):
        """(start,end) of the region between the braces of the body"""
        return (s.body_open + 1, s.end - 1)
    def sha(s): return hashlib.sha256(s.text_noattr().encode()).hexdigest()[:16]
    def line(s): return s.src.text.count('\n', 0, s.sig) + 1
    def __repr__(s): return 'Item(%s %s @%d)' % (s.kind, s.name, s.line())

def norm(s):
    return re.sub(r'\s+', ' ', s).strip()

class Source:
    def __init__(self, text, origin='<text>'):
        self.text = text
        self.m = mask(text)
        self.origin = origin

    @staticmethod
    def load(path):
        with open(path) as f:
            return Source(f.read(), path)

    def items(self, region=None):
        """Yield items directly inside region (start,end) (default whole file)."""
        m = self.m
        a, b = region if region else (0, len(m))
        i = a
        res = []
        while i < b:
            # skip whitespace
            while i < b and m[i].isspace(): i += 1
            if i >= b: break
            start = i
            # attributes
            while True:
                while i < b and m[i].isspace(): i += 1
                if m.startswith('#[', i) or m.startswith('#![', i):
                    j = m.index('[', i)
                    i = match_close(m, j) + 1
                else:
                    break
            sig = i
            # visibility & qualifiers
            kind = None; name = None
            j = i
            while j < b:
                while j < b and m[j].isspace(): j += 1
                w = _word.match(m, j)
                if not w:
                    break
                word = w.group(0)
                if word == 'pub':
                    j = w.end()
                    k = j
                    while k < b and m[k].isspace(): k += 1
                    if k < b and m[k] == '(':
                        j = match_close(m, k) + 1
                    continue
                if word in ('async', 'unsafe', 'default'):
                    j = w.end(); continue
                if word == 'const':
                    # const fn vs const ITEM
                    k = w.end()
                    while k < b and m[k].isspace(): k += 1
                    w2 = _word.match(m, k)
                    if w2 and w2.group(0) in ('fn', 'unsafe', 'async', 'extern'):
                        j = w.end(); continue
                    kind = 'const'; j = w.end(); break
                if word == 'extern':
                    k = w.end()
                    while k < b and m[k].isspace(): k += 1
                    if m[k] == '"':
                        k = m.index('"', k + 1) + 1
                    while k < b and m[k].isspace(): k += 1
                    w2 = _word.match(m, k)
                    if w2 and w2.group(0) == 'fn':
                        j = k; continue
                    kind = 'extern'; j = k; break
                if word in ITEM_KW:
                    kind = word; j = w.end(); break
                break
            if kind is None:
                # not an item start (macro invocation, stray tokens): skip to ; or matching brace
                k = i
                while k < b and m[k] not in ';{([': k += 1
                if k >= b:
                    break
                if m[k] == ';':
                    end = k + 1
                else:
                    end = match_close(m, k) + 1
                    # macro invocation like foo! { ... } or foo!(...);
                    k2 = end
                    while k2 < b and m[k2] in ' \t': k2 += 1
                    if k2 < b and m[k2] == ';': end = k2 + 1
                w = _word.match(m, i)
                nm = w.group(0) if w else '?'
                res.append(Item(kind='other', name=nm, header=norm(self.text[sig:min(end, sig+80)]),
                                start=start, sig=sig, body_open=None, end=end, src=self))
                i = end
                continue
            # name
            k = j
            while k < b and m[k].isspace(): k += 1
            if kind == 'macro_rules':
                # macro_rules! name { ... }
                k = m.index('!', k) + 1
                while m[k].isspace(): k += 1
                w = _word.match(m, k); name = w.group(0); k = w.end()
            elif kind == 'impl':
                name = None
            elif kind in ('use', 'extern'):
                name = None
            else:
                w = _word.match(m, k)
                if w: name = w.group(0); k = w.end()
            # find end: first '{' or ';' at bracket depth 0 (angle brackets ignored; parens/brackets skipped)
            body_open = None
            while k < b:
                c = m[k]
                if c == ';':
                    end = k + 1; break
                if c == '{':
                    body_open = k
                    end = match_close(m, k) + 1
                    break
                if c in '([':
                    k = match_close(m, k) + 1; continue
                k += 1
            else:
                raise RsxError('item without end near %d in %s' % (sig, self.origin))
            if kind == 'use' and body_open is not None:
                # use a::{b, c};
                k = end
                while m[k] != ';':
                    if m[k] == '{': k = match_close(m, k)
                    k += 1
                end = k + 1; body_open = None
            if kind in ('const', 'static', 'type') and body_open is not None:
                # const X: T = Foo { .. };  -> ends at ';'
                k = end
                while k < b and m[k] != ';':
                    if m[k] in OPEN: k = match_close(m, k)
                    k += 1
                end = k + 1; body_open = None
            if kind == 'struct' and body_open is None:
                pass
            header = norm(self.text[sig:body_open]) if body_open is not None else norm(self.text[sig:end])
            res.append(Item(kind=kind, name=name, header=header, start=start, sig=sig,
                            body_open=body_open, end=end, src=self))
            i = end
        return res

    def find(self, kind, name=None, header=None, region=None, nth=0):
        """Find the nth item of `kind` with `name` (or whose normalised header
        equals / starts with `header`) directly inside region."""
        hits = []
        for it in self.items(region):
            if it.kind != kind: continue
            if name is not None and it.name != name: continue
            if header is not None:
                h = norm(header)
                if not (it.header == h or it.header.startswith(h + ' ') or it.header.startswith(h + '{')):
                    continue
            hits.append(it)
        if len(hits) <= nth:
            raise RsxError('item not found: %s %s %s in %s (hits=%d)' % (kind, name, header, self.origin, len(hits)))
        return hits[nth]

    def path(self, spec):
        """Resolve 'impl DataFrame<'_> :: fn build_into' / 'mod x :: fn y' /
        'fn f' / 'struct S' / 'macro_rules m'.  Segments separated by ' :: '."""
        region = None
        it = None
        for seg in [s.strip() for s in spec.split(' :: ')]:
            nth = 0
            mm = re.match(r'^(.*)#(\d+)$', seg)
            if mm: seg, nth = mm.group(1).strip(), int(mm.group(2))
            if seg.startswith('impl<'):
                kind, rest = 'impl', seg[4:]
            else:
                kind, _, rest = seg.partition(' ')
            rest = rest.strip()
            if kind == 'impl':
                it = self.find('impl', header='impl ' + rest if not rest.startswith('<') else 'impl' + rest, region=region, nth=nth)
            elif kind in ('fn', 'struct', 'enum', 'const', 'static', 'mod', 'trait', 'type', 'macro_rules', 'union'):
                it = self.find(kind, name=rest, region=region, nth=nth)
            else:
                raise RsxError('bad path segment %r' % seg)
            if it.body_open is not None:
                region = it.inner()
        return it

    # ---- loops / statements inside a fn body -------------------------------
    def loops(self, item):
        """Return list of (kw_pos, body_open) for for/while/loop headers in the
        body of item, in textual order (nested included)."""
        m = self.m
        a, b = item.inner()
        out = []
        for w in re.finditer(r'\b(for|while|loop)\b', m[a:b]):
            p = a + w.start()
            # skip `for<'a>` HRTB and `impl X for Y`
            k = p + len(w.group(0))
            if w.group(0) == 'for':
                # require ' in ' before body brace
                pass
            # find body brace: first '{' at depth 0 after header
            while k < b:
                c = m[k]
                if c in '([':
                    k = match_close(m, k) + 1; continue
                if c == '{':
                    break
                if c == ';':
                    k = None; break
                k += 1
            if k is None or k >= b: continue
            if w.group(0) == 'for' and not re.search(r'\bin\b', m[p:k]): continue
            out.append((p, k))
        return out


def expand_macro(src, macro_name, bindings, strip_repeats=True):
    """Literal instantiation of a macro_rules! macro with a single arm:
    returns the body text with $var replaced per `bindings`.  `$( ... )*`
    groups whose content mentions an unbound variable are dropped
    (strip_repeats).  Purely textual; recorded as extraction rule X6."""
    it = src.find('macro_rules', name=macro_name)
    a, b = it.inner()
    m = src.m
    # single arm: ( pattern ) => { body }
    k = a
    while m[k].isspace(): k += 1
    if m[k] not in '([{': raise RsxError('macro arm not found')
    pe = match_close(m, k)
    k = m.index('=>', pe) + 2
    while m[k].isspace(): k += 1
    be = match_close(m, k)
    body = src.text[k+1:be]
    if strip_repeats:
        # drop `$(#[$outer])*`-like repeats
        body = re.sub(r'\$\(\s*#\[\$[A-Za-z_]+\]\s*\)\*', '', body)
    for var, val in sorted(bindings.items(), key=lambda kv: -len(kv[0])):
        body = re.sub(r'\$' + re.escape(var) + r'\b', val, body)
    if re.search(r'\$[A-Za-z_(]', mask(body)):
        raise RsxError('unbound macro variable left in expansion of %s' % macro_name)
    return body


def selftest(paths):
    """Re-extract every item of every file and check (a) items tile the file
    (only whitespace between them), (b) brace balance inside each item."""
    n = 0
    for p in paths:
        s = Source.load(p)
        pos = 0
        def walk(region, depth):
            nonlocal n
            its = s.items(region)
            prev = region[0]
            for it in its:
                gap = s.m[prev:it.start]
                if gap.strip():
                    raise RsxError('%s: untiled text %r before %r' % (p, gap.strip()[:40], it))
                prev = it.end
                n += 1
                if it.kind in ('impl', 'mod', 'trait') and it.body_open is not None:
                    walk(it.inner(), depth + 1)
            gap = s.m[prev:region[1]]
            if gap.strip():
                raise RsxError('%s: untiled tail %r' % (p, gap.strip()[:40]))
        walk((0, len(s.text)), 0)
    return n

if __name__ == '__main__':
    import sys, glob
    paths = sys.argv[1:] or [p for p in glob.glob('/repo/*/src/**/*.rs', recursive=True)]
    print('items indexed:', selftest(paths), 'in', len(paths), 'files')
