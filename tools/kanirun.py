#!/usr/bin/env python3
"""kanirun -- scratch copy of /repo, add-only injection of contract/harness modules,
cargo-kani execution, JSON result parsing, concrete-playback replay.

Harness modules live in /verif/contracts/kani/<name>.rs and are self-describing:

    // @inject file=lorawan-device/src/mac/session.rs mod=verif_session
    // @job pkg=lorawan-device features=... no-default-features zflags=function-contracts,stubbing
    ...
    // @verif props=C05,C06 obligation=<name> label=proved-complete tier=quick [bound="..."] [finding=KF1]
    #[kani::proof]
    fn harness_name() { ... }

A `finding=<id>` harness is the *witness* of a known finding: it is expected to FAIL while the
finding is open (see known_findings.json); the obligation's main harness excludes exactly the
witness' input class, so the two together still cover the whole input space.

Contract attributes on real functions are given as

    // @contract file=<path> fn=<rsx path>
    // | #[cfg_attr(kani, kani::requires(...))]
    // | #[cfg_attr(kani, kani::ensures(...))]

and are inserted (added lines only) in front of the function in the scratch copy.
"""
import os, re, sys, json, shutil, subprocess, time, hashlib, shlex
sys.path.insert(0, os.path.dirname(__file__))
from rsx import Source, RsxError

REPO = os.environ.get('VERIF_REPO', '/repo')
VERIF = os.path.dirname(os.path.dirname(os.path.abspath(__file__)))
KDIR = os.path.join(VERIF, 'contracts', 'kani')

class MachineryError(Exception):
    """exit 2: the machinery could not decide (never an alarm)"""

def sh(cmd, cwd=None, timeout=None, env=None):
    e = dict(os.environ)
    e['CARGO_NET_OFFLINE'] = 'true'
    if env: e.update(env)
    t0 = time.time()
    try:
        p = subprocess.run(cmd, cwd=cwd, env=e, stdout=subprocess.PIPE, stderr=subprocess.STDOUT,
                           timeout=timeout, shell=isinstance(cmd, str), text=True, errors='replace')
        return p.returncode, p.stdout, time.time() - t0
    except subprocess.TimeoutExpired as ex:
        out = ex.stdout or ''
        if isinstance(out, bytes): out = out.decode(errors='replace')
        return 124, out, time.time() - t0

# ----------------------------------------------------------------------------- module parsing
class Harness:
    def __init__(self, **kw): self.__dict__.update(kw)

class Module:
    def __init__(self, path):
        self.path = path
        self.name = os.path.splitext(os.path.basename(path))[0]
        self.text = open(path).read()
        self.inject = None      # (file, modname)
        self.injects = []
        self.job = {}
        self.contracts = []     # (file, fnpath, [lines])
        self.deasync = []       # files
        self.requires = []      # other module names
        self.substs = []        # (file, from, to): Y1 textual substitutions besides async/await removal
        self.harnesses = []
        self.parse()

    def parse(self):
        lines = self.text.split('\n')
        i = 0
        while i < len(lines):
            l = lines[i].strip()
            m = re.match(r'//\s*@inject\s+(.*)$', l)
            if m:
                kv = dict(x.split('=', 1) for x in m.group(1).split())
                self.inject = (kv['file'], kv['mod'])
                self.injects.append(self.inject)
            m = re.match(r'//\s*@job\s+(.*)$', l)
            if m:
                for x in shlex.split(m.group(1)):
                    if '=' in x:
                        k, v = x.split('=', 1); self.job[k] = v
                    else:
                        self.job[x] = True
            m = re.match(r'//\s*@subst\s+(\S+)\s+<<(.*?)>>\s*=>\s*<<(.*?)>>\s*$', l) or \
                re.match(r'//\s*@subst\s+(\S+)\s+"(.*?)"\s*=>\s*"(.*?)"\s*$', l)
            if m:
                self.substs.append((m.group(1), m.group(2), m.group(3)))
            m = re.match(r'//\s*@requires\s+(.*)$', l)
            if m:
                self.requires += m.group(1).split()
            m = re.match(r'//\s*@deasync\s+(.*)$', l)
            if m:
                self.deasync += m.group(1).split()
            m = re.match(r'//\s*@contract\s+file=(\S+)\s+fn=(.*)$', l)
            if m:
                attrs = []
                j = i + 1
                while j < len(lines) and re.match(r'\s*//\s*\|', lines[j]):
                    attrs.append(re.sub(r'^\s*//\s*\|\s?', '', lines[j])); j += 1
                self.contracts.append((m.group(1), m.group(2).strip(), attrs))
            m = re.match(r'//\s*@verif\s+(.*)$', l)
            if m:
                kv = {}
                for x in shlex.split(m.group(1)):
                    k, _, v = x.partition('=')
                    kv[k] = v
                # an obligation name may contain blanks: it runs up to the next ` key=` of the tag
                mo = re.search(r'\bobligation=(.*?)(?=\s+(?:label|tier|bound|finding|unit|assumes|props)=|$)', m.group(1))
                if mo: kv['obligation'] = mo.group(1).strip()
                # find fn name below
                j = i + 1
                name = None
                while j < len(lines) and j < i + 12:
                    mm = re.match(r'\s*(?:pub\s+)?fn\s+([A-Za-z0-9_]+)\s*\(', lines[j])
                    if mm: name = mm.group(1); break
                    j += 1
                if not name:
                    raise MachineryError('%s: @verif tag without fn near line %d' % (self.path, i + 1))
                self.harnesses.append(Harness(name=name, module=self, props=kv.get('props', '').split(','),
                                              obligation=kv.get('obligation', name), label=kv.get('label', 'proved-complete'),
                                              tier=kv.get('tier', 'quick'), bound=kv.get('bound'), finding=kv.get('finding'),
                                              unit=kv.get('unit', ''), assumes=kv.get('assumes', '')))
            i += 1
        if not self.inject:
            raise MachineryError('%s: no @inject directive' % self.path)

    def jobkey(self):
        j = self.job
        return (j.get('pkg'), j.get('features', ''), bool(j.get('no-default-features')), j.get('zflags', ''))

def load_modules():
    mods = []
    for f in sorted(os.listdir(KDIR)):
        if f.endswith('.rs'):
            mods.append(Module(os.path.join(KDIR, f)))
    return mods

# ----------------------------------------------------------------------------- scratch + injection
def make_scratch(tag):
    base = os.environ.get('VERIF_SCRATCH', '/var/tmp')
    d = os.path.join(base, 'lora-verif.%s.%d' % (tag, os.getpid()))
    if os.path.exists(d): shutil.rmtree(d)
    os.makedirs(d)
    rc, out, _ = sh(['rsync', '-a', '--exclude', 'target', '--exclude', '.git', '--exclude', 'examples', REPO + '/', d + '/w/'])
    if rc != 0: raise MachineryError('rsync failed: ' + out)
    w = os.path.join(d, 'w')
    tc = os.path.join(w, 'rust-toolchain.toml')
    if os.path.exists(tc): os.remove(tc)
    os.makedirs(os.path.join(w, '.cargo'), exist_ok=True)
    with open(os.path.join(w, '.cargo', 'config.toml'), 'w') as f:
        f.write('[net]\noffline = true\n[build]\nrustflags = ["--cfg", "aes_backend=\\"soft\\""]\n')
    # workspace excludes examples/* which we did not copy: harmless
    return d, w

def deasync_text(text):
    """Y1: delete `async` before `fn` and every `.await`.  Purely textual."""
    t = re.sub(r'\basync\s+fn\b', 'fn', text)
    t = re.sub(r'\.await\b', '', t)
    return t

def inject(w, modules):
    """Add-only injection.  Returns dict with counts for the evidence."""
    added = 0
    info = {'modules': [], 'contracts': [], 'deasync': []}
    vm = os.path.join(w, 'verif_mods')
    os.makedirs(vm, exist_ok=True)
    # contracts first (positions computed on pristine text per file)
    per_file = {}
    for mod in modules:
        for (file, fnpath, attrs) in mod.contracts:
            per_file.setdefault(file, []).append((fnpath, attrs))
    for file, lst in per_file.items():
        p = os.path.join(w, file)
        src = Source.load(p)
        ins = []
        for fnpath, attrs in lst:
            try:
                it = src.path(fnpath)
            except RsxError as e:
                raise MachineryError('contract anchor lost: %s :: %s (%s)' % (file, fnpath, e))
            ins.append((it.sig, attrs, fnpath))
        ins.sort(key=lambda x: -x[0])
        text = src.text
        for pos, attrs, fnpath in ins:
            # indent like the fn
            ls = text.rfind('\n', 0, pos) + 1
            indent = text[ls:pos] if text[ls:pos].strip() == '' else ''
            block = ''.join(a + '\n' + indent for a in attrs)
            text = text[:pos] + block + text[pos:]
            added += len(attrs)
            info['contracts'].append('%s :: %s (+%d lines)' % (file, fnpath, len(attrs)))
        with open(p, 'w') as f: f.write(text)
    for mod in modules:
        for file in mod.deasync:
            p = os.path.join(w, file)
            if file in info['deasync']: continue
            t = open(p).read()
            with open(p, 'w') as f: f.write(deasync_text(t))
            info['deasync'].append(file)
    done_subst = set()
    for mod in modules:
        for (file, a, b) in mod.substs:
            if (file, a, b) in done_subst: continue
            done_subst.add((file, a, b))
            p = os.path.join(w, file)
            t = open(p).read()
            if a not in t:
                raise MachineryError('@subst anchor lost in %s: %r' % (file, a))
            with open(p, 'w') as f: f.write(t.replace(a, b))
            info.setdefault('subst', []).append('%s: %r => %r' % (file, a, b))
    for mod in modules:
        dst = os.path.join(vm, mod.name + '.rs')
        shutil.copy(mod.path, dst)
        for (file, modname) in mod.injects:
            p = os.path.join(w, file)
            if not os.path.exists(p):
                raise MachineryError('inject target lost: ' + file)
            with open(p, 'a') as f:
                f.write("\n#[cfg(kani)]\n#[path = \"%s\"]\npub(crate) mod %s;\n" % (dst, modname))
            added += 3
            info['modules'].append('%s <- mod %s' % (file, modname))
    info['added_lines'] = added
    return info

# ----------------------------------------------------------------------------- running
UNDECIDED_CATEGORIES = ('unwind', 'unsupported_construct')

def restore_message(c):
    """Edition-2024 crates make `assert!(cond, "text")` a runtime-formatted message, which Kani replaces by a placeholder:
    read the message back from the harness source line the check points at."""
    if 'placeholder message' not in (c.get('description') or ''): return
    loc = c.get('location') or {}
    try:
        lines = open(loc.get('file')).read().split('\n')
        ln = int(loc.get('line')) - 1
        seg = ' '.join(lines[ln:ln + 3])
        col = int(loc.get('column') or 1) - 1
        seg = seg[col:] if col < len(lines[ln]) else seg
        m = re.search(r'assert!\(.*?,\s*"((?:[^"\\]|\\.)*)"\s*\)', seg)
        if m: c['description'] = '"%s"' % m.group(1)
    except Exception:
        pass

def classify_check(c):
    """-> 'property' | 'unwind' | 'unsupported' | 'cover'"""
    cat = (c.get('category') or '').lower()
    desc = (c.get('description') or '').lower()
    if 'unwinding assertion' in desc or cat == 'unwind': return 'unwind'
    if cat == 'unsupported_construct' or 'is not currently supported by kani' in desc: return 'unsupported'
    if cat == 'cover': return 'cover'
    return 'property'

def run_job(w, job_modules, harnesses, outdir, jobs=16, harness_timeout=600, total_timeout=3600):
    """Run the given harnesses (all from modules sharing one job key). Returns results dict by harness name."""
    m0 = job_modules[0]
    pkg = m0.job.get('pkg')
    cmd = ['cargo', 'kani', '-p', pkg]
    if m0.job.get('no-default-features'): cmd += ['--no-default-features']
    if m0.job.get('features'): cmd += ['--features', m0.job['features']]
    zf = set(['unstable-options'])
    for mod in job_modules:
        for z in (mod.job.get('zflags') or '').split(','):
            if z: zf.add(z)
    for z in sorted(zf): cmd += ['-Z', z]
    if 'function-contracts' in zf: cmd += ['--no-assert-contracts']
    cmd += ['--no-assertion-reach-checks']
    for h in harnesses: cmd += ['--harness', h.name]
    cmd += ['--exact'] if False else []
    js = os.path.join(outdir, 'kani-%s-%s.json' % (pkg, hashlib.md5(' '.join(h.name for h in harnesses).encode()).hexdigest()[:8]))
    cmd += ['-j', str(jobs), '--export-json', js, '--harness-timeout', '%ds' % harness_timeout, '--output-format', 'terse']
    rc, out, dt = sh(cmd, cwd=w, timeout=total_timeout)
    res = {'cmd': ' '.join(shlex.quote(c) for c in cmd), 'rc': rc, 'wall_s': dt, 'raw_tail': out[-6000:], 'harness': {}}
    if not os.path.exists(js):
        # compile error or kani crash
        raise MachineryError('cargo kani produced no JSON (rc=%d):\n%s' % (rc, out[-4000:]))
    d = json.load(open(js))
    byid = {}
    for r in d.get('verification_results', {}).get('results', []):
        byid[r['harness_id']] = r
    stats = {x['harness_id']: (x.get('cbmc_stats') or {}) for x in d.get('cbmc', [])}
    pdet = {x['harness_id']: (x.get('property_details') or {}) for x in d.get('property_details', [])}
    edet = {x['harness_id']: x for x in d.get('error_details', [])}
    stubs = re.findall(r'- Stub: .*', out)
    for h in harnesses:
        hid = None
        for k in byid:
            if k == h.name or k.endswith('::' + h.name): hid = k
        if hid is None:
            res['harness'][h.name] = {'status': 'missing'}
            continue
        r = byid[hid]
        checks = r.get('checks', [])
        failed = [c for c in checks if c.get('status') in ('Failure', 'FAILURE', 'Failed')]
        for c in failed: restore_message(c)
        kinds = {}
        for c in failed:
            kinds.setdefault(classify_check(c), []).append(c)
        # vacuity guard: every `kani::cover!(true, "verif-reached: ...")` marker must be satisfiable
        # vacuity markers: `kani::cover!(cond, "verif-reached: ..")` must be satisfiable; "verif-maybe: .." markers (in
        # contract functions shared by differently constrained harnesses) are informational, but at least one marker
        # of either kind must be satisfiable in every harness
        reach = [c for c in checks if 'verif-reached' in (c.get('description') or '') or 'verif-maybe' in (c.get('description') or '')]
        groups = {}
        for c in reach:
            key = (c.get('description'), json.dumps(c.get('location'), sort_keys=True))
            groups.setdefault(key, []).append((c.get('status') or '').lower())
        sat = lambda sts: any(x in ('satisfied', 'success') for x in sts)
        unsat_covers = [{'description': k[0]} for k, sts in groups.items() if 'verif-reached' in k[0] and not sat(sts)]
        covers = reach
        if not groups or not any(sat(sts) for sts in groups.values()):
            unsat_covers = unsat_covers or [{'description': 'no satisfiable vacuity marker in harness'}]
        pd = pdet.get(hid, {})
        res['harness'][h.name] = {
            'id': hid, 'status': r.get('status'), 'duration_ms': r.get('duration_ms'),
            'total': pd.get('total_properties', len(checks)), 'failed_n': pd.get('failed', len(failed)),
            'passed_n': pd.get('passed'), 'unreachable_n': pd.get('unreachable'), 'undetermined_n': pd.get('undetermined'),
            'failed': [{'function': c.get('function'), 'description': c.get('description'),
                        'location': c.get('location'), 'category': c.get('category'), 'kind': classify_check(c)} for c in failed][:40],
            'fail_kinds': sorted(kinds.keys()),
            'unsat_covers': [c.get('description') for c in unsat_covers],
            'covers': len(covers),
            'solver_s': stats.get(hid, {}).get('runtime_solver_s'), 'symex_s': stats.get(hid, {}).get('runtime_symex_s'),
            'vccs': stats.get(hid, {}).get('vccs_generated'),
            'error': edet.get(hid, {}),
        }
    res['stubs'] = stubs
    res['tools'] = d.get('tools', {})
    if os.environ.get('VERIF_TIMES'):
        for n, r in sorted(res['harness'].items(), key=lambda kv: -(kv[1].get('duration_ms') or 0)):
            print('TIME %-50s %8.1fs %s' % (n, (r.get('duration_ms') or 0) / 1000.0, r.get('status')), flush=True)
    return res


def _base_cmd(mod):
    pkg = mod.job.get('pkg')
    cmd = ['cargo', 'kani', '-p', pkg]
    if mod.job.get('no-default-features'): cmd += ['--no-default-features']
    if mod.job.get('features'): cmd += ['--features', mod.job['features']]
    return cmd

def trace_values(w, mod, h, timeout=900):
    """Fast counterexample extraction: re-run the failing harness with CBMC's --trace --stop-on-fail
    (slicing kept, reachability instrumentation off, so the single trace belongs to the first failing
    property) and read the values returned by kani::any_raw_internal in trace order.  Returns a
    concrete-playback unit test text or None."""
    cmd = _base_cmd(mod)
    zf = set(['unstable-options'])
    for z in (mod.job.get('zflags') or '').split(','):
        if z: zf.add(z)
    for z in sorted(zf): cmd += ['-Z', z]
    if 'function-contracts' in zf: cmd += ['--no-assert-contracts']
    cmd += ['--harness', h.name, '--no-assertion-reach-checks', '--output-format', 'old', '--cbmc-args', '--trace']
    rc, out, dt = sh(cmd, cwd=w, timeout=timeout)
    blocks = out.split('\nTrace for ')[1:]
    body = None; viol = ''
    for b in blocks:
        end = b.find('\nViolated property:')
        if end < 0: continue
        v = b[end:end+900]
        if 'cover condition' in v or 'verif-reached' in v or 'verif-maybe' in v: continue
        body = b[:end]; viol = v
        break
    if body is None:
        return None, out[-2000:]
    vals = []
    for m in re.finditer(r'goto_symex\$\$return_value\$\$\w*any_raw_(?:internal|array)\w*=(.*)$', body, re.M):
        rhs = m.group(1).strip()
        pm = re.search(r'\((\{?[01 ,{}]+\}?)\)\s*$', rhs)
        if not pm: return None, 'unparsed any() value: ' + rhs[:120]
        bits = pm.group(1)
        if '{' in bits:
            # arrays: Kani's native playback draws one value per element
            elems = [e.strip() for e in bits.strip('{} ').split(',')]
            for e in elems:
                g = e.split()
                vals.append([int(x, 2) for x in reversed(g)])
        else:
            g = bits.split()
            vals.append([int(x, 2) for x in reversed(g)])
    if not vals:
        return None, 'no any() values in trace'
    # common_tape.rs draws MAIN (160 bytes) then STUB (96 bytes); a tape the failure does not depend on is
    # sliced out of the trace -- it can hold anything, so pad with zeros
    if all(len(v) == 1 for v in vals) and len(vals) in (160, 96):
        vals = (vals + [[0]] * 96) if len(vals) == 160 else ([[0]] * 160 + vals)
    lines = ['#[test]', '#[allow(rust_2018_idioms, unused_extern_crates)]', 'fn kani_concrete_playback_%s_verif() {' % h.name, '    extern crate std;', '    let concrete_vals: std::vec::Vec<std::vec::Vec<u8>> = std::vec![']
    for v in vals:
        lines.append('        std::vec![%s],' % ', '.join(str(x) for x in v))
    lines += ['    ];', '    kani::concrete_playback_run(concrete_vals, %s);' % h.name, '}']
    return '\n'.join(lines) + '\n', viol

def playback_values(w, mod, h, outdir, timeout=900):
    """Re-run one failing harness with --concrete-playback=print; return (test_text, raw)."""
    pkg = mod.job.get('pkg')
    cmd = ['cargo', 'kani', '-p', pkg]
    if mod.job.get('no-default-features'): cmd += ['--no-default-features']
    if mod.job.get('features'): cmd += ['--features', mod.job['features']]
    zf = set(['concrete-playback'])
    for z in (mod.job.get('zflags') or '').split(','):
        if z: zf.add(z)
    for z in sorted(zf): cmd += ['-Z', z]
    cmd += ['--harness', h.name, '--concrete-playback=print', '--output-format', 'terse']
    rc, out, dt = sh(cmd, cwd=w, timeout=timeout)
    m = re.search(r'```\n(.*?)```', out, re.S)
    txt = None
    if m:
        txt = m.group(1)
        k = txt.find('#[test]')
        txt = txt[k:] if k >= 0 else None   # drop Kani's doc comment (may contain unescaped multi-line text)
        if txt:
            txt = txt.replace('Vec<Vec<u8>>', 'std::vec::Vec<std::vec::Vec<u8>>').replace(' vec![', ' std::vec![')
    return txt, out[-3000:]

def run_playback(w, mod, h, test_text, timeout=900, expect=(), expect_lines=()):
    """Append the generated unit test to the scratch copy of the harness module and execute it natively
    (cargo kani playback): the harness body, i.e. the real functions of /repo, run on the concrete inputs.
    `expect`: descriptions of the failed checks; the native panic must be that assertion (or a panic raised
    inside the code of /repo) to count as reproduced."""
    dst = os.path.join(w, 'verif_mods', mod.name + '.rs')
    m = re.search(r'fn (kani_concrete_playback_\w+)\(', test_text)
    if not m: return None, 'no test fn in playback text'
    tname = m.group(1)
    cur = open(dst).read()
    if ('fn %s(' % tname) not in cur:
        with open(dst, 'a') as f:
            f.write('\n' + test_text + '\n')
    pkg = mod.job.get('pkg')
    cmd = ['cargo', 'kani', 'playback', '-Z', 'concrete-playback', '-p', pkg]
    if mod.job.get('no-default-features'): cmd += ['--no-default-features']
    if mod.job.get('features'): cmd += ['--features', mod.job['features']]
    cmd += ['--', tname]
    rc, out, dt = sh(cmd, cwd=w, timeout=timeout)
    passed = bool(re.search(r'test result: ok\. 1 passed', out))
    pm = re.search(r"panicked at ([^\n]*?):\n(.*?)\n(?:stack backtrace|note:)", out, re.S)
    if passed: return 'not-reproduced', out[-4000:]
    if not pm: return 'error', out[-4000:]
    where, msg = pm.group(1), pm.group(2)
    if 'concrete_playback' in where or 'concrete' in msg.lower():
        return 'error', ('playback input misaligned: %s %s\n' % (where, msg[:200])) + out[-3000:]
    norm = lambda x: re.sub(r'[^A-Za-z0-9]+', '', re.sub(r'&[a-z]+;', '', x or ''))
    exp = [norm(e) for e in expect]
    if any(e and e in norm(msg) for e in exp):
        return 'reproduced', ('native panic: %s: %s\n' % (where, msg[:300])) + out[-3000:]
    if any(re.search(r':%s:\d+$' % re.escape(str(l)), where) for l in expect_lines if l):
        return 'reproduced', ('native panic at the failed check (same source line): %s: %s\n' % (where, msg[:300])) + out[-3000:]
    if 'verif_mods' not in where:
        return 'reproduced', ('native panic inside /repo code: %s: %s\n' % (where, msg[:300])) + out[-3000:]
    return 'not-reproduced', ('native run stopped at a different harness assertion: %s: %s\n' % (where, msg[:300])) + out[-3000:]
