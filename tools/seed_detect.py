#!/usr/bin/env python3
"""Run the registered quick check of the property a seeded change targets, with the change applied to /repo
(git apply ... ; check ; git checkout -- .).  Writes seeded/<id>/detect.json."""
import json, os, subprocess, sys, time
ids = sys.argv[1:]
# --wt <dir>: apply the change in that scratch worktree of /repo and point the check at it (VERIF_REPO); the check then
# writes no evidence.  Without --wt the change is applied to /repo itself and undone straight afterwards.
WT = '/repo'
if ids and ids[0] == '--wt':
    WT = ids[1]; ids = ids[2:]
for sid in ids:
    d = '/verif/seeded/%s/' % sid
    prop = sid[:3]
    assert subprocess.run('git -C %s status --porcelain -uno' % WT, shell=True, capture_output=True, text=True).stdout.strip() == '', WT + ' not clean'
    subprocess.run('git -C %s apply %spatch.diff' % (WT, d), shell=True, check=True)
    t0 = time.time()
    try:
        p = subprocess.run('./check %s --tier quick' % prop, cwd='/verif', shell=True, stdout=subprocess.PIPE, stderr=subprocess.STDOUT, text=True, timeout=3600,
                           env=dict(os.environ, VERIF_REPO=WT))
        out, rc = p.stdout, p.returncode
    finally:
        subprocess.run('git -C %s checkout -- .' % WT, shell=True, check=True)
        if WT == '/repo': subprocess.run('git -C /verif checkout -- evidence', shell=True)
    lines = [l for l in out.split('\n') if l.startswith('VIOLATION') or l.startswith('UNDECIDED') or l.startswith('MACHINERY') or l.startswith(prop + ' tier')]
    res = {'seed': sid, 'property': prop, 'check_cmd': './check %s --tier quick' % prop, 'exit': rc, 'wall_s': round(time.time() - t0, 1),
           'detected': rc == 1 and any(l.startswith('VIOLATION') for l in lines), 'lines': [l[:400] for l in lines][:12]}
    res['tree'] = WT
    json.dump(res, open(d + 'detect.json', 'w'), indent=1)
    print(sid, 'exit', rc, 'detected', res['detected'], '%.0fs' % res['wall_s'], flush=True)
    for l in lines[:4]: print('    ', l[:260], flush=True)
