#!/usr/bin/env python3
"""Confirm a seeded change myself in a scratch worktree: (1) patch applied -> existing suite passes,
(2) patch + demo -> demo fails, (3) demo without patch -> demo passes.  Writes seeded/<id>/confirm.json."""
import json, os, re, subprocess, sys
WT = sys.argv[1]
ids = sys.argv[2:]
def sh(cmd, cwd=WT, timeout=3000):
    p = subprocess.run(cmd, cwd=cwd, shell=True, stdout=subprocess.PIPE, stderr=subprocess.STDOUT, text=True, timeout=timeout)
    return p.returncode, p.stdout
def clean():
    sh('git checkout -- . && git clean -fdq')
for sid in ids:
    d = '/verif/seeded/%s/' % sid
    meta = json.load(open(d + 'meta.json'))
    res = {'seed': sid}
    clean()
    rc, out = sh('git apply %spatch.diff' % d)
    res['patch_applies'] = rc == 0
    rc, out = sh('cargo test --workspace --offline 2>&1 | grep -E "^test result|FAILED|^error" ')
    res['suite_with_patch_ok'] = ('FAILED' not in out and 'error' not in out and 'test result: ok' in out)
    res['suite_summary'] = out.strip().split('\n')[-3:]
    # install demo
    if os.path.exists(d + 'demo.diff'):
        rc, o2 = sh('git apply %sdemo.diff' % d)
        res['demo_installed'] = rc == 0
    else:
        f = [x for x in os.listdir(d) if x.startswith('seed_demo_') and x.endswith('.rs')][0]
        crate = 'lorawan-encoding' if '-p lorawan ' in meta['demo_cmd'] else ('lora-modulation' if 'lora-modulation' in meta['demo_cmd'] else ('lora-phy' if 'lora-phy' in meta['demo_cmd'] else 'lorawan-device'))
        os.makedirs(os.path.join(WT, crate, 'tests'), exist_ok=True)
        sh('cp %s%s %s/tests/' % (d, f, crate))
        res['demo_installed'] = True
    cmd = meta['demo_cmd']
    cmd = re.sub(r'cd /tmp/wt\d+\s*&&\s*', '', cmd)
    cmd = re.sub(r'git apply \S+\s*&&\s*', '', cmd)
    cmd = re.sub(r'cp \S+ \S+\s*&&\s*', '', cmd)
    res['demo_cmd'] = cmd
    rc, out = sh(cmd)
    res['demo_fails_with_patch'] = rc != 0 and ('FAILED' in out or 'panicked' in out)
    rc, o3 = sh('git apply -R %spatch.diff' % d)
    rc, out = sh(cmd)
    res['demo_passes_without_patch'] = rc == 0 and 'test result: ok' in out
    clean()
    json.dump(res, open(d + 'confirm.json', 'w'), indent=1)
    print(sid, {k: v for k, v in res.items() if k not in ('suite_summary',)}, flush=True)
