#!/usr/bin/env python3
"""mkscratch <tag> <module> [<module>...] -- create an injected scratch copy for interactive debugging; prints its path"""
import sys, os
sys.path.insert(0, os.path.dirname(__file__))
import kanirun
tag = sys.argv[1]
mods = kanirun.load_modules()
byname = {m.name: m for m in mods}
used = [byname[n] for n in sys.argv[2:]]
k = 0
while k < len(used):
    for rn in used[k].requires:
        if byname[rn] not in used: used.append(byname[rn])
    k += 1
d, w = kanirun.make_scratch(tag)
print(kanirun.inject(w, used))
print(w)
