#!/usr/bin/env python3
"""vassemble -- build a single-file Verus input from a template (.vt) and the
current text of /repo, and map Verus diagnostics back to units/clauses.

Template directives (each starts a line, everything else is copied verbatim):

  //@src NAME = <relative path under repo>
  //@src NAME = macro <SRC> <macro_name> k=v k=v ...      (rule X6)
  //@rewrite "from" "to"           literal replacement on all extracted text
  //@item NAME :: <path>           verbatim item (attrs dropped X1, pub-widened X4)
  //@sig  NAME :: <path>           signature only, followed by template lines up to //@end
                                   (used for external_body declarations whose body stays in /repo: X5)
  //@fn   NAME :: <path>           function: signature, spec, body with insertions
  //@spec                          following lines: requires/ensures clauses
  //@loop N                        following lines: invariant/decreases for loop N
  //@before <anchor text>          following lines inserted before first statement starting with anchor
  //@after  <anchor text>          ... after the statement (after its terminating ';' or '}')
  //@bodyhead                      following lines inserted right after the body's opening brace
  //@end

The body text of every //@fn and //@item comes from /repo on every run.
"""
import re, os, sys, json, hashlib
sys.path.insert(0, os.path.dirname(__file__))
from rsx import Source, RsxError, expand_macro, mask, match_close, norm

class AsmError(Exception):
    pass

def drop_attrs_and_docs(text):
    """X1: remove outer attributes and doc comments in front of / inside the item
    (field attributes as well)."""
    m = mask(text)
    out = []
    i = 0
    n = len(text)
    while i < n:
        if m.startswith('#[', i) or m.startswith('#![', i):
            j = match_close(m, m.index('[', i)) + 1
            # swallow trailing whitespace up to and including one newline
            k = j
            while k < n and text[k] in ' \t': k += 1
            if k < n and text[k] == '\n': k += 1
            i = k
            continue
        out.append(text[i]); i += 1
    # whole-line comments (doc comments included) carry no code
    return '\n'.join(l for l in ''.join(out).split('\n') if not l.lstrip().startswith('//'))

def widen_pub(text, kind):
    """X4: make the item and (for structs) its fields pub."""
    t = text
    t = re.sub(r'^\s*pub\s*\([^)]*\)\s*', '', t)
    if not re.match(r'\s*pub\b', t):
        t = 'pub ' + t.lstrip()
    if kind == 'struct':
        m = mask(t)
        b = m.find('{')
        p = m.find('(')
        if b >= 0 and (p < 0 or b < p):
            e = match_close(m, b)
            inner = t[b+1:e]
            mi = m[b+1:e]
            # split fields on top-level commas
            fields = []; depth = 0; last = 0
            for idx, c in enumerate(mi):
                if c in '([{<': depth += 1
                elif c in ')]}>': depth -= 1
                elif c == ',' and depth == 0:
                    fields.append(inner[last:idx]); last = idx + 1
            fields.append(inner[last:])
            nf = []
            for f in fields:
                fs = f.strip()
                if not fs:
                    continue
                # strip comments in front
                body = re.sub(r'^(\s*//[^\n]*\n)*', '', f).strip()
                body = re.sub(r'^pub\s*(\([^)]*\))?\s*', '', body)
                nf.append('    pub ' + body)
            t = t[:b+1] + '\n' + ',\n'.join(nf) + ',\n' + t[e:]
        elif p >= 0:
            e = match_close(m, p)
            inner = t[p+1:e]
            parts = [x.strip() for x in inner.split(',') if x.strip()]
            parts = ['pub ' + re.sub(r'^pub\s*(\([^)]*\))?\s*', '', x) for x in parts]
            t = t[:p+1] + ', '.join(parts) + t[e:]
    return t

def find_anchor(body, bm, arg):
    """position in body of the first statement whose normalised text starts with arg"""
    a = norm(arg)
    first = a.split(' ')[0]
    for mm3 in re.finditer(re.escape(first), body):
        p = mm3.start()
        if norm(body[p:p + len(arg) * 3 + 40]).startswith(a):
            q = p - 1
            while q >= 0 and bm[q].isspace(): q -= 1
            if q < 0 or bm[q] in ';{}':
                return p
    return None

def stmt_end(bm, found):
    k = found
    while k < len(bm):
        c = bm[k]
        if c in '([{':
            k2 = match_close(bm, k)
            if c == '{':
                k3 = k2 + 1
                while k3 < len(bm) and bm[k3].isspace(): k3 += 1
                if bm.startswith('else', k3) or (k3 < len(bm) and bm[k3] in ';.?'):
                    k = k2 + 1; continue
                return k2 + 1
            k = k2 + 1; continue
        if c == ';': return k + 1
        k += 1
    return len(bm)

class Unit:
    def __init__(self, **kw):
        self.__dict__.update(kw)

class Assembly:
    def __init__(self, repo, template_path):
        self.repo = repo
        self.tpl = template_path
        self.srcs = {}
        self.rewrites = []
        self.out = []         # lines
        self.units = []       # Unit(name, path, kind, sha, lines(start,end), regions{...}, rules)
        self.regions = []     # (start_line, end_line, unit_name, kind)  kind in spec|loop|proof|body|template
        self.rules = set()

    def _line(self):
        return len(self.out) + 1

    def emit(self, text, unit=None, kind='template'):
        lines = text.split('\n')
        if lines and lines[-1] == '':
            lines.pop()
        s = self._line()
        self.out.extend(lines)
        e = self._line() - 1
        if e >= s:
            self.regions.append((s, e, unit, kind))

    def src(self, name):
        if name not in self.srcs:
            raise AsmError('unknown source %s' % name)
        return self.srcs[name]

    def apply_rewrites(self, text):
        for a, b in self.rewrites:
            if a in text:
                text = text.replace(a, b)
        # X2: |_| closure params
        t2 = re.sub(r'\|_\|', '|_p|', text)
        if t2 != text: self.rules.add('X2'); text = t2
        return text

    def build(self):
        with open(self.tpl) as f:
            tl = f.read().split('\n')
        i = 0
        n = len(tl)
        while i < n:
            l = tl[i]
            s = l.strip()
            if s.startswith('//@src '):
                mm = re.match(r'//@src\s+(\w+)\s*=\s*(.*)$', s)
                name, rest = mm.group(1), mm.group(2).strip()
                if rest.startswith('macro '):
                    parts = rest.split()
                    base, mname = parts[1], parts[2]
                    binds = dict(p.split('=', 1) for p in parts[3:])
                    text = expand_macro(self.src(base), mname, binds)
                    self.srcs[name] = Source(text, '%s!%s(%s)' % (self.src(base).origin, mname, binds))
                    self.rules.add('X6')
                else:
                    self.srcs[name] = Source.load(os.path.join(self.repo, rest))
                i += 1; continue
            if s.startswith('//@rewrite '):
                mm = re.match(r'//@rewrite\s+"(.*?)"\s+"(.*?)"\s*$', s)
                self.rewrites.append((mm.group(1), mm.group(2)))
                i += 1; continue
            if s.startswith('//@item '):
                mm = re.match(r'//@item\s+(\w+)\s*::\s*(.*)$', s)
                src = self.src(mm.group(1)); it = src.path(mm.group(2).strip())
                text = drop_attrs_and_docs(src.text[it.start:it.end]); self.rules.add('X1')
                derives = re.findall(r'#\[derive\(([^)]*)\)\]', src.text[it.start:it.sig])
                keep = []
                for d in derives:
                    for x in [y.strip() for y in d.split(',')]:
                        if x in ('Clone', 'Copy', 'PartialEq', 'Eq') and x not in keep: keep.append(x)
                text = widen_pub(text, it.kind); self.rules.add('X4')
                text = self.apply_rewrites(text)
                uname = '%s %s' % (it.kind, it.name)
                if keep and it.kind in ('struct', 'enum'):
                    text = '#[derive(%s)]\n' % ', '.join(keep) + text
                self.emit(text, uname, 'body')
                self.units.append(Unit(name=uname, kind=it.kind, origin=src.origin, path=mm.group(2).strip(),
                                       sha=it.sha(), line=it.line()))
                i += 1; continue
            if s.startswith('//@fn ') or s.startswith('//@sig '):
                is_sig = s.startswith('//@sig ')
                mm = re.match(r'//@(?:fn|sig)\s+(\w+)\s*::\s*(.*)$', s)
                src = self.src(mm.group(1)); path = mm.group(2).strip()
                alias = None
                ma = re.match(r'^(.*?)\s+as\s+([A-Za-z0-9_:<>\']+)$', path)
                if ma: path, alias = ma.group(1).strip(), ma.group(2)
                it = src.path(path)
                if it.kind != 'fn' or it.body_open is None:
                    raise AsmError('%s is not a fn with body' % path)
                # collect sections
                sections = []  # (kind, arg, lines)
                i += 1
                cur = None
                while i < n and tl[i].strip() != '//@end':
                    ls = tl[i].strip()
                    mm2 = re.match(r'//@(spec|loop|before|after|bodyhead|vis)\b\s*(.*)$', ls)
                    if mm2:
                        cur = (mm2.group(1), mm2.group(2).strip(), [])
                        sections.append(cur)
                    elif ls.startswith('//@'):
                        raise AsmError('unknown directive inside fn: ' + ls)
                    else:
                        if cur is None:
                            if ls: raise AsmError('text before section in fn %s: %r' % (path, ls))
                        else:
                            cur[2].append(tl[i])
                    i += 1
                if i >= n: raise AsmError('missing //@end for ' + path)
                i += 1
                uname = path.split(' :: ')[-1].replace('fn ', '')
                owner = [p for p in path.split(' :: ') if p.startswith('impl')]
                if owner:
                    uname = re.sub(r"^impl\s*(<[^>]*>\s*)?", '', owner[-1]) + '::' + uname
                uname = re.sub(r"<[^>]*>", '', uname)
                if alias: uname = alias
                sig = src.text[it.sig:it.body_open].rstrip()
                sig = self.apply_rewrites(sig)
                vis = [x for x in sections if x[0] == 'vis']
                if not re.match(r'\s*pub\b', sig):
                    pass
                # result name: Verus needs `-> (r: T)` to talk about the result
                rn = [x for x in sections if x[0] == 'spec']
                if rn and re.search(r'\)\s*->', sig) and any(re.search(r'\br\b', ' '.join(x[2])) for x in rn):
                    # wrap return type
                    ms = mask(sig)
                    k = ms.rfind('->')
                    ret = sig[k+2:].strip()
                    # where clause?
                    wpos = re.search(r'\bwhere\b', mask(ret))
                    where = ''
                    if wpos:
                        where = ' ' + ret[wpos.start():]
                        ret = ret[:wpos.start()].strip()
                    sig = sig[:k] + '-> (r: ' + ret + ')' + where
                    self.rules.add('X7')
                chunks = [(sig + '\n', 'sig')]
                for sec in sections:
                    if sec[0] == 'spec':
                        chunks.append(('\n'.join(sec[2]) + '\n', 'spec'))
                if is_sig:
                    chunks.append(('{ unimplemented!() }\n', 'template'))
                    self.emit_chunks(chunks, uname)
                    self.rules.add('X5')
                    self.units.append(Unit(name=uname, kind='sig', origin=src.origin, path=path, sha=it.sha(), line=it.line()))
                    continue
                # body with insertions
                body = src.text[it.body_open:it.end]
                bm = src.m[it.body_open:it.end]
                inserts = []  # (pos_in_body, text, kind)
                loops = src.loops(it)
                for sec in sections:
                    kind, arg, lines = sec
                    txt = '\n'.join(lines)
                    if kind == 'loop':
                        idx = int(arg)
                        if idx >= len(loops):
                            raise AsmError('loop %d not found in %s (has %d)' % (idx, path, len(loops)))
                        pos = loops[idx][1] - it.body_open
                        inserts.append((pos, '\n' + txt + '\n', 'loop'))
                    elif kind in ('before', 'after'):
                        found = find_anchor(body, bm, arg)
                        if found is None:
                            raise AsmError('anchor not found in %s: %r' % (path, arg))
                        if kind == 'before':
                            inserts.append((found, '\n' + txt + '\n', 'proof'))
                        else:
                            inserts.append((stmt_end(bm, found), '\n' + txt + '\n', 'proof'))
                    elif kind == 'bodyhead':
                        inserts.append((1, '\n' + txt + '\n', 'proof'))
                inserts.sort(key=lambda x: x[0])
                pos = 0
                for p_, txt, kind in inserts:
                    chunks.append((self.apply_rewrites(body[pos:p_]), 'body'))
                    chunks.append((txt, kind))
                    pos = p_
                chunks.append((self.apply_rewrites(body[pos:]) + '\n', 'body'))
                self.emit_chunks(chunks, uname)
                self.units.append(Unit(name=uname, kind='fn', origin=src.origin, path=path, sha=it.sha(), line=it.line(),
                                       nloops=len(loops)))
                continue
            if s.startswith('//@'):
                raise AsmError('unknown directive: ' + s)
            self._emit_tpl(l)
            i += 1
        return '\n'.join(self.out) + '\n'

    def _emit_tpl(self, l):
        s = self._line()
        self.out.append(l)
        self.regions.append((s, s, None, 'template'))

    def emit_chunks(self, chunks, unit):
        base = self._line()
        full = ''
        for text, kind in chunks:
            if not text: continue
            sl = base + full.count('\n')
            full += text
            el = base + full.count('\n') - (1 if text.endswith('\n') else 0)
            self.regions.append((sl, max(sl, el), unit, kind))
        lines = full.split('\n')
        if lines and lines[-1] == '': lines.pop()
        self.out.extend(lines)

    def locate(self, line):
        """Return (unit, kinds) for a generated-file line."""
        unit = None; kinds = []
        for s, e, u, k in self.regions:
            if s <= line <= e:
                if u: unit = u
                kinds.append(k)
        return unit, kinds

def main():
    import argparse
    ap = argparse.ArgumentParser()
    ap.add_argument('template'); ap.add_argument('out'); ap.add_argument('--repo', default='/repo')
    a = ap.parse_args()
    asm = Assembly(a.repo, a.template)
    text = asm.build()
    with open(a.out, 'w') as f: f.write(text)
    json.dump({'units': [u.__dict__ for u in asm.units], 'rules': sorted(asm.rules), 'regions': asm.regions},
              open(a.out + '.map.json', 'w'), indent=1)
    print('assembled %d units, %d lines' % (len(asm.units), len(asm.out)))

if __name__ == '__main__':
    main()
