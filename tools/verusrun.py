#!/usr/bin/env python3
"""verusrun -- assemble a Verus unit group from /repo's current text, run Verus, map diagnostics to
units and clause kinds, apply the vacuity guards."""
import os, re, sys, json, time, subprocess, shutil, tempfile
sys.path.insert(0, os.path.dirname(__file__))
import vassemble
from rsx import RsxError, mask, match_close

VERIF = os.path.dirname(os.path.dirname(os.path.abspath(__file__)))
VDIR = os.path.join(VERIF, 'contracts', 'verus')

def groups():
    return json.load(open(os.path.join(VDIR, 'groups.json')))

def groups_for(pid):
    return [g for g, d in groups().items() if pid in d['props']]

PROPERTY_MSG = ('postcondition not satisfied', 'precondition not satisfied', 'possible arithmetic underflow/overflow',
                'possible division by zero', 'index out of bounds', 'slice', 'unwrap', 'possible bit shift',
                'recommendation not met')

def classify(msg, kinds_at_line):
    m = msg.lower()
    if 'resource limit' in m or 'rlimit' in m: return 'rlimit'
    if 'not supported' in m or 'unsupported' in m: return 'unsupported'
    if 'postcondition not satisfied' in m: return 'postcondition'
    if 'precondition not satisfied' in m: return 'callee-precondition'
    if 'overflow' in m or 'division by zero' in m or 'out of bounds' in m or 'bit shift' in m: return 'panic-freedom'
    if 'invariant not satisfied' in m: return 'loop-invariant'
    if 'decreases' in m or 'termination' in m: return 'decreases'
    if 'assertion failed' in m: return 'proof-assert'
    return 'other'

def count_clauses(text):
    """number of ensures / invariant / decreases clauses in a spec chunk (top-level commas)"""
    m = mask(text)
    n = 0
    cur = None
    depth = 0
    i = 0
    buf = ''
    def flush():
        nonlocal n, buf
        if cur in ('ensures', 'invariant', 'decreases') and buf.strip(): n += 1
        buf = ''
    while i < len(m):
        w = re.match(r'(requires|ensures|invariant|decreases|recommends)\b', m[i:])
        if depth == 0 and w and (i == 0 or not (m[i-1].isalnum() or m[i-1] == '_')):
            flush(); cur = w.group(1); i += len(cur); continue
        c = m[i]
        if c in '([{': depth += 1
        elif c in ')]}': depth -= 1
        if c == ',' and depth == 0: flush()
        else: buf += text[i]
        i += 1
    flush()
    return n

def run_group(g, pid, repo, keep=False):
    cfg = groups()[g]
    tpl = os.path.join(VDIR, cfg['template'])
    res = {'cmd': '', 'units': [], 'machinery': None, 'trusted': [], 'smt_s': 0.0, 'samples': [], 'extraction': {}, 'stderr_tail': ''}
    wd = tempfile.mkdtemp(prefix='lora-verus.', dir=os.environ.get('VERIF_SCRATCH', '/var/tmp'))
    try:
        try:
            asm = vassemble.Assembly(repo, tpl)
            text = asm.build()
        except (RsxError, vassemble.AsmError, FileNotFoundError) as e:
            res['machinery'] = 'extraction failed (lost anchor / item): %s' % e
            return res
        src = os.path.join(wd, g + '.rs')
        open(src, 'w').write(text)
        cmd = ['verus', src, '--output-json', '--time-expanded', '--error-format=json', '--triggers-mode', 'silent',
               '--multiple-errors', '4']
        res['cmd'] = 'verus <assembled %s from %s> --output-json --time-expanded --error-format=json --multiple-errors 4' % (g + '.rs', cfg['template'])
        t0 = time.time()
        p = subprocess.run(cmd, cwd=wd, stdout=subprocess.PIPE, stderr=subprocess.PIPE, text=True, timeout=1800)
        res['wall_s'] = time.time() - t0
        res['stderr_tail'] = p.stderr[-4000:]
        try:
            out = json.loads(p.stdout)
        except Exception:
            res['machinery'] = 'verus produced no JSON (rc=%d): %s' % (p.returncode, p.stderr[-1500:])
            return res
        vres = out.get('verification-results', {})
        errors = []
        hard = []
        for l in p.stderr.split('\n'):
            l = l.strip()
            if not l.startswith('{'): continue
            try: e = json.loads(l)
            except Exception: continue
            if e.get('level') != 'error': continue
            msg = e.get('message', '')
            if msg.startswith('aborting due to'): continue
            spans = e.get('spans', [])
            prim = [s for s in spans if s.get('is_primary')] or spans
            line = prim[0]['line_start'] if prim else None
            errors.append({'message': msg, 'line': line, 'spans': [(s['line_start'], s.get('label')) for s in spans],
                           'code': (e.get('code') or {}).get('code') if e.get('code') else None})
        if vres.get('encountered-vir-error') or ('verified' not in vres):
            res['machinery'] = 'verus front-end error (unsupported construct or type error): %s' % \
                '; '.join(e['message'][:200] for e in errors[:3])
            return res
        # rustc-level errors (E0xxx) are machinery errors
        rustc = [e for e in errors if e.get('code')]
        if rustc:
            res['machinery'] = 'rustc error in assembled file: ' + '; '.join(e['message'][:200] for e in rustc[:3])
            return res
        # map errors to units
        lines = text.split('\n')
        def template_unit(line):
            # nearest preceding `fn name` in template text
            for k in range(line - 1, -1, -1):
                mm = re.match(r'\s*(?:pub\s+)?(?:broadcast\s+)?(?:proof\s+|exec\s+)?fn\s+([A-Za-z0-9_]+)', lines[k])
                if mm: return 'lemma:' + mm.group(1)
            return None
        per_unit = {}
        canary_hit = False
        for e in errors:
            if e['line'] is None:
                continue
            u, kinds = asm.locate(e['line'])
            # errors reported at the signature of a function (rlimit) map through spans
            if u is None:
                u = template_unit(e['line'])
            kind = classify(e['message'], kinds)
            if u == 'lemma:verif_canary_false':
                canary_hit = True; continue
            per_unit.setdefault(u, []).append({'message': e['message'], 'kind': kind, 'unit_line': e['line'],
                                               'text': lines[e['line'] - 1].strip()[:160] if e['line'] else ''})
        if 'verif_canary_false' in text and not canary_hit:
            res['machinery'] = 'vacuity guard: the deliberately false canary was NOT rejected by Verus'
            return res
        # per-function smt time
        ftime = {}
        for mt in out.get('times-ms', {}).get('smt', {}).get('smt-run-module-times', []):
            for f in mt.get('function-breakdown', []):
                ftime[f['function']] = ftime.get(f['function'], 0) + f.get('time-micros', 0) / 1e6
        res['smt_s'] = sum(ftime.values())
        wanted = cfg['props'][pid]
        # clause counts per unit
        clause = {}
        for (s, e_, u, k) in asm.regions:
            if u and k in ('spec', 'loop'):
                clause[u] = clause.get(u, 0) + count_clauses('\n'.join(lines[s-1:e_]))
        have = {u.name: u for u in asm.units}
        # template lemmas
        lemma_clause = {}
        for mm in re.finditer(r'^\s*(?:pub\s+)?proof\s+fn\s+([A-Za-z0-9_]+)', text, re.M):
            name = mm.group(1)
            st = mm.end()
            b = text.find('{', st)
            # spec is between signature and the body brace at depth 0 -- approximate by first '\n{' line
            mb = re.search(r'\n\{', text[st:])
            spec = text[st: st + mb.start()] if mb else ''
            lemma_clause['lemma:' + name] = count_clauses(spec)
        for w in wanted:
            twin = None
            if isinstance(w, dict):
                twin = w.get('twin'); w = w['unit']
            if w.startswith('lemma:'):
                if w not in lemma_clause:
                    res['machinery'] = 'expected lemma %s missing from template' % w; return res
                ob = max(1, lemma_clause[w]); origin = 'template'; sha = None
            else:
                if w not in have:
                    res['machinery'] = 'expected unit %s was not extracted (have %d units)' % (w, len(have)); return res
                ob = 1 + clause.get(w, 0); origin = have[w].origin + ' :: ' + have[w].path; sha = have[w].sha
            errs = per_unit.get(w, [])
            fn_short = w.split('::')[-1].replace('lemma:', '')
            t = sum(v for k, v in ftime.items() if k.endswith('::' + fn_short))
            res['units'].append({'name': w, 'engine': 'verus', 'label': 'proved-unbounded', 'status': 'failed' if errs else 'verified',
                                 'obligations': ob, 'errors': errs, 'origin': origin, 'sha': sha, 'smt_s': round(t, 3), 'twin': twin})
            if not errs and len(res['samples']) < 6:
                res['samples'].append({'unit': w, 'engine': 'verus', 'verdict': 'verified', 'clauses': ob, 'source': origin})
        # failures outside the wanted list do not concern this property, except they must not be front-end errors
        res['extraction'] = {'rules': sorted(asm.rules), 'rewrites': asm.rewrites,
                             'items': [{'unit': u.name, 'from': u.origin, 'path': u.path, 'sha256_16': u.sha, 'line': u.line} for u in asm.units]}
        # trusted base: scan the assembled file
        tb = []
        for kw, label in (('external_body', 'verus external_body (trusted contract)'), ('assume_specification', 'verus assume_specification'),
                          ('broadcast axiom', 'verus axiom'), ('uninterp spec fn', 'uninterpreted spec function'),
                          ('assume(', 'verus assume'), ('admit(', 'verus admit'), ('PartialEqSpecImpl', 'assumed PartialEq spec')):
            for mm in re.finditer(re.escape(kw), text):
                ln = text.count('\n', 0, mm.start())
                ctx = ' '.join(x.strip() for x in lines[ln:ln+3])[:140]
                tb.append('%s: %s' % (label, ctx))
        res['trusted'] = sorted(set(tb))
        res['verus_summary'] = vres
        return res
    finally:
        if not keep: shutil.rmtree(wd, ignore_errors=True)
        else: print('verus workdir kept at', wd)
