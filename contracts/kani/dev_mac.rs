// Contracts + harnesses for lorawan-device/src/mac/mod.rs (C09 power, C10 windows/delays, C11 join state machine, C04)
// @inject file=lorawan-device/src/mac/mod.rs mod=verif_mac
// @job pkg=lorawan-device zflags=function-contracts,stubbing
// @requires common_tape dev_uplink dev_region dev_session
use super::*;
use crate::verif_tape as tape;
use crate::region::verif_region::*;
use crate::mac::session::verif_session::*;

/// re-export for front-end harnesses (module `session` is private to `mac`)
pub(crate) fn sessions_equal_but_adr_cnt(a: &Session, b: &Session) -> bool { let mut x = a.clone(); x.adr_ack_cnt = b.adr_ack_cnt; session::verif_session::session_eq(&x, b) }
pub(crate) fn any_joined_session() -> Session { session::verif_session::any_session() }
pub(crate) fn any_mac(region: region::Configuration, state: State) -> Mac {
    let configuration = {
        let mut c = any_mac_configuration(&region);
        kani::assume(region.rx1_dr_offset_validate(c.rx1_dr_offset).is_some());   // wf_conf
        c.join_accept_delay1 = region::constants::JOIN_ACCEPT_DELAY1;
        c
    };
    let max_power = tape::u8();
    let antenna_gain = tape::i8();
    kani::assume(max_power <= 30 && antenna_gain >= -30 && antenna_gain <= 30);   // A-board
    Mac { configuration, region, board_eirp: BoardEirp { max_power, antenna_gain }, state }
}

// ------------------------------------------------------------------ del_to_delay_ms / get_rx_delay (C10)
// @verif props=C10,C08 obligation=del_to_delay_ms.contract label=proved-complete tier=quick
#[kani::proof]
fn c10_del_to_delay_ms() {
    tape::init();
    let d = tape::u8();
    let ms = del_to_delay_ms(d);
    // LoRaWAN 1.0.x RXTimingSetupReq / JoinAccept RxDelay: 0 and 1 mean 1 s, 2..15 mean that many seconds (4-bit field)
    let want = if d >= 2 && d <= 15 { d as u32 * 1000 } else { 1000 };
    assert!(ms == want || d > 15, "C10 RX1 delay = Del seconds (0 means 1)");
    assert!(ms >= 1000 && ms <= 15000, "delay stays within 1..15 s for every byte value");
    kani::cover!(d == 0, "verif-reached: del 0");
    kani::cover!(d == 15, "verif-reached: del 15");
}

// @verif props=C10 obligation=Mac::get_rx_delay.contract label=proved-complete tier=quick
#[kani::proof]
fn c10_get_rx_delay() {
    tape::init();
    let mut m = any_mac(any_fresh_region(), State::Unjoined);
    kani::assume(m.configuration.rx1_delay <= 15000);
    assert!(m.get_rx_delay(&Frame::Join, &Window::_1) == 5000 && m.get_rx_delay(&Frame::Join, &Window::_2) == 6000, "C10 join accept windows at 5 s / 6 s");
    let d1 = m.get_rx_delay(&Frame::Data, &Window::_1);
    let d2 = m.get_rx_delay(&Frame::Data, &Window::_2);
    assert!(d1 == m.configuration.rx1_delay && d2 == d1 + 1000, "C10 RX1 at the negotiated delay, RX2 one second later");
    m.configuration.rx1_delay = 1000;
    kani::cover!(true, "verif-reached: end");
}

// ------------------------------------------------------------------ rx_windows / build_rf_config / rx2_rf_config (C10)
/// One region per harness; uplink data rate x RX1DROffset x RX2 override enumerated concretely (the modulation
/// parameters are then constants: a symbolic (SF, BW) pair costs a 32-bit divider per window), frequencies symbolic.
fn rx_windows_check(m: &Mac, dr: u8, f_up: u32, f_rx1: u32) {
    let off = m.configuration.rx1_dr_offset;
    let txc = region::TxChannel { datarate: m.region.get_datarate(dr).unwrap().clone(), dr: DR::from(dr), frequency: f_up, rx1_frequency: f_rx1 };
    let w = m.rx_windows(&txc);
    assert!(w.rx1.frequency == f_rx1, "C10 RX1 on the downlink frequency paired with the uplink channel");
    let t1 = m.region.get_rx_datarate(DR::from(dr), off, &Window::_1) as u8;
    let t2 = m.region.get_rx_datarate(DR::from(dr), off, &Window::_2) as u8;
    let d1 = if dr_defined(&m.region, t1) { t1 } else { t2 };
    let exp1 = m.region.get_datarate(d1).unwrap();
    assert!(w.rx1.bb.sf == exp1.spreading_factor && w.rx1.bb.bw == exp1.bandwidth && w.rx1.max_payload_len == exp1.max_mac_payload_size,
        "C10 RX1 at the regional table's data rate for (uplink DR, RX1DROffset), regional RX2 default if that rate is not defined");
    let f2 = m.configuration.rx2_frequency.unwrap_or(m.region.get_rx2_frequency());
    assert!(w.rx2.frequency == f2, "C10 RX2 on the negotiated frequency, else the regional default");
    let d2 = match m.configuration.rx2_data_rate { Some(d) => d as u8, None => t2 };
    let exp2 = m.region.get_datarate(d2).unwrap();
    assert!(w.rx2.bb.sf == exp2.spreading_factor && w.rx2.bb.bw == exp2.bandwidth && w.rx2.max_payload_len == exp2.max_mac_payload_size,
        "C10 RX2 at the negotiated data rate, else the regional default");
    // C10 "Class C listening between windows uses the RX2 parameters" (of the data rate in force)
    #[cfg(feature = "class-c")]
    if m.configuration.data_rate as u8 == dr {
        let c = m.get_rxc_config();
        assert!(matches!(c.mode, crate::radio::RxMode::Continuous), "C10 Class C listening is continuous");
        assert!(c.rf.frequency == w.rx2.frequency && c.rf.bb.sf == w.rx2.bb.sf && c.rf.bb.bw == w.rx2.bb.bw && c.rf.max_payload_len == w.rx2.max_payload_len,
            "C10 Class C listening between the windows uses the RX2 parameters");
    }
}
fn rx_windows_contract(ri: usize) {
    tape::init();
    let f_up = tape::u32();
    let f_rx1 = tape::u32();
    let region = region::Configuration::new(ALL_REGIONS[ri]);
    let mut m = Mac::new(region, 14, 0);
    m.configuration.rx2_frequency = tape::opt_u32();
    // RX1: every region-defined uplink data rate x every valid RX1DROffset (RX2 at its default)
    let mut dr: u8 = 0;
    let mut first_defined: u8 = 0xff;
    while dr < 15 {
        if dr_defined(&m.region, dr) {
            if first_defined == 0xff { first_defined = dr; }
            let mut off: u8 = 0;
            while off < 8 {
                if m.region.rx1_dr_offset_validate(off).is_some() {
                    m.configuration.rx1_dr_offset = off;
                    m.configuration.data_rate = DR::from(dr);
                    rx_windows_check(&m, dr, f_up, f_rx1);
                }
                off += 1;
            }
        }
        dr += 1;
    }
    // RX2: every data rate override the configuration can hold
    m.configuration.rx1_dr_offset = 0;
    let mut o: u8 = 0;
    while o < 15 {
        if dr_defined(&m.region, o) {
            m.configuration.rx2_data_rate = Some(DR::from(o));
            m.configuration.data_rate = DR::from(first_defined);
            rx_windows_check(&m, first_defined, f_up, f_rx1);
        }
        o += 1;
    }
    kani::cover!(true, "verif-reached: all combinations done");
}
// @verif props=C10,C04 obligation=Mac::rx_windows.contract[AS923_1] label=proved-complete tier=quick
#[kani::proof]
#[kani::unwind(18)]
fn c10_rx_windows_as923_1() { rx_windows_contract(0) }
// @verif props=C10,C04 obligation=Mac::rx_windows.contract[AS923_2] label=proved-complete tier=thorough
#[kani::proof]
#[kani::unwind(18)]
fn c10_rx_windows_as923_2() { rx_windows_contract(1) }
// @verif props=C10,C04 obligation=Mac::rx_windows.contract[AS923_3] label=proved-complete tier=thorough
#[kani::proof]
#[kani::unwind(18)]
fn c10_rx_windows_as923_3() { rx_windows_contract(2) }
// @verif props=C10,C04 obligation=Mac::rx_windows.contract[AS923_4] label=proved-complete tier=thorough
#[kani::proof]
#[kani::unwind(18)]
fn c10_rx_windows_as923_4() { rx_windows_contract(3) }
// @verif props=C10,C04 obligation=Mac::rx_windows.contract[AU915] label=proved-complete tier=quick
#[kani::proof]
#[kani::unwind(18)]
fn c10_rx_windows_au915() { rx_windows_contract(4) }
// @verif props=C10,C04 obligation=Mac::rx_windows.contract[EU868] label=proved-complete tier=quick
#[kani::proof]
#[kani::unwind(18)]
fn c10_rx_windows_eu868() { rx_windows_contract(5) }
// @verif props=C10,C04 obligation=Mac::rx_windows.contract[EU433] label=proved-complete tier=thorough
#[kani::proof]
#[kani::unwind(18)]
fn c10_rx_windows_eu433() { rx_windows_contract(6) }
// @verif props=C10,C04 obligation=Mac::rx_windows.contract[IN865] label=proved-complete tier=thorough
#[kani::proof]
#[kani::unwind(18)]
fn c10_rx_windows_in865() { rx_windows_contract(7) }
// @verif props=C10,C04 obligation=Mac::rx_windows.contract[US915] label=proved-complete tier=quick
#[kani::proof]
#[kani::unwind(18)]
fn c10_rx_windows_us915() { rx_windows_contract(8) }

// ------------------------------------------------------------------ TxConfig::adjust_power / Mac::send power (C09)
// @verif props=C09 obligation=TxConfig::adjust_power.contract label=proved-complete tier=quick
#[kani::proof]
fn c09_adjust_power() {
    tape::init();
    let eirp = tape::u8();
    let max_power = tape::u8();
    let gain = tape::i8();
    kani::assume(eirp <= 30 && max_power <= 30 && gain >= -30 && gain <= 30);   // A-board / regional tables
    let region = region::Configuration::new(region::Region::EU868);
    let d = region.get_datarate(0).unwrap();
    let mut t = radio::TxConfig { pw: eirp as i8, rf: RfConfig { frequency: 0, bb: BaseBandModulationParams::new(d.spreading_factor, d.bandwidth, region.get_coding_rate()), max_payload_len: 0 } };
    t.adjust_power(max_power, gain);
    assert!(t.pw as i32 <= max_power as i32 && t.pw as i32 <= eirp as i32 - gain as i32, "C09 conducted power <= limit and <= EIRP - antenna gain");
    assert!(t.pw as i32 == core::cmp::min(max_power as i32, eirp as i32 - gain as i32), "adjust_power = min(limit, EIRP - gain)");
    kani::cover!(true, "verif-reached: end");
}

// ------------------------------------------------------------------ Mac::send / Mac::join_otaa: power and channel of the uplink (C09)
pub(crate) fn stub_prepare_buffer<const N: usize>(s: &mut Session, _data: &SendData<'_>, _tx: &mut RadioBuffer<N>, _c: &Configuration, _r: &region::Configuration) -> FcntUp { s.fcnt_up }

fn mac_send_power(ri: usize) {
    tape::init();
    let region = region::Configuration::new(ALL_REGIONS[ri]);
    let s = any_session_with(crate::mac::uplink::verif_uplink::any_uplink_len(0));
    let mut m = any_mac(region, State::Joined(s));
    // wf_plan: default mask, default channels; wf_conf: uplink data rate region-defined (and an uplink rate on fixed plans)
    kani::assume(!m.region.has_fixed_channel_plan() || (m.configuration.data_rate as u8) <= 4);
    if let Some(p) = m.configuration.tx_power { kani::assume(p <= spec_max_eirp(ri)); }   // only values check_tx_power hands out
    let max_power = m.board_eirp.max_power;
    let gain = m.board_eirp.antenna_gain;
    let commanded = m.configuration.tx_power;
    let mut rng = TapeRng { draws: 0, free: 2, accept: 0 };
    let mut buf: RadioBuffer<64> = RadioBuffer::new();
    let r = m.send::<TapeRng, 64>(&mut rng, &mut buf, &SendData { data: &[], fport: 1, confirmed: false });
    match r {
        Ok((tx, _w, _f)) => {
            assert!(tx.pw as i32 <= max_power as i32, "C09 conducted power never above the radio's maximum");
            assert!(tx.pw as i32 <= spec_max_eirp(ri) as i32 - gain as i32, "C09 never above regional maximum EIRP less antenna gain");
            if let Some(p) = commanded { assert!(tx.pw as i32 <= p as i32, "C09 never above the level the network last commanded"); }
            assert!(m.region.frequency_valid(tx.rf.frequency), "C09 uplink frequency inside the band");
        }
        Err(_) => assert!(false, "a joined device can send"),
    }
    kani::cover!(commanded.is_some(), "verif-reached: network commanded a power");
    kani::cover!(commanded.is_none(), "verif-reached: default power");
}
// @verif props=C09,C04 obligation=Mac::send.power+frequency[EU868] label=proved-complete tier=quick bound="fresh channel plan; any board power 0..30 dBm, antenna gain -30..30 dBi, any commanded power of the region's table"
#[kani::proof]
#[kani::stub(crate::mac::session::Session::prepare_buffer, stub_prepare_buffer)]
#[kani::unwind(74)]
fn c09_mac_send_power_eu868() { mac_send_power(5) }
// @verif props=C09,C04 obligation=Mac::send.power+frequency[US915] label=proved-complete tier=quick bound="fresh channel plan; any board power, antenna gain, commanded power"
#[kani::proof]
#[kani::stub(crate::mac::session::Session::prepare_buffer, stub_prepare_buffer)]
#[kani::unwind(74)]
fn c09_mac_send_power_us915() { mac_send_power(8) }

// ------------------------------------------------------------------ Mac state machine around the join (C11, C04)
// @verif props=C11,C04 obligation=Mac::{handle_rx,rx2_complete,send}.unjoined_states label=proved-complete tier=quick
#[kani::proof]
#[kani::unwind(74)]
fn c11_mac_unjoined_states() {
    tape::init();
    let mut m = any_mac(region::Configuration::new(region::Region::EU868), State::Unjoined);
    let old = m.configuration;
    let mut rx: RadioBuffer<64> = RadioBuffer::new();
    let n = tape::below(34);
    { let b: [u8; 33] = tape::arr(); let p = rx.as_mut(); let mut i = 0; while i < 33 { p[i] = b[i]; i += 1; } }
    rx.set_pos(n);
    let mut dl: Vec<Downlink, 1> = Vec::new();
    let d = m.region.get_datarate(0).unwrap();
    let rf = RfConfig { frequency: 0, bb: BaseBandModulationParams::new(d.spreading_factor, d.bandwidth, m.region.get_coding_rate()), max_payload_len: 59 };
    assert!(matches!(m.handle_rx::<64, 1>(&mut rx, &mut dl, 0, &rf), Response::NoUpdate), "C11 a device that never started a join ignores every frame");
    assert!(matches!(m.rx2_complete(), Response::NoUpdate) && !m.is_joined() && m.configuration == old, "unjoined stays unjoined");
    let mut rng = TapeRng { draws: 0, free: 2, accept: 0 };
    let mut buf: RadioBuffer<64> = RadioBuffer::new();
    assert!(m.send::<TapeRng, 64>(&mut rng, &mut buf, &SendData { data: &[], fport: 1, confirmed: false }).is_err(), "C11 no data uplink before a session exists");
    assert!(m.get_fcnt_up().is_none() && m.get_session().is_none(), "no session");
    kani::cover!(true, "verif-reached: end");
}

// ------------------------------------------------------------------ Mac::handle_rx / handle_rxc hand-off (C05-C07 lifted, C04)
/// ghost of the Session::handle_rx contract-stub: how often it ran and with which window arguments
pub(crate) static mut HRX: (u8, bool, u8) = (0, false, 0);
pub(crate) fn stub_session_handle_rx<const N: usize, const D: usize>(_s: &mut Session, _region: &mut region::Configuration, _configuration: &mut Configuration,
    _rx: &mut RadioBuffer<N>, _dl: &mut Vec<Downlink, D>, max_payload_len: u8, _snr: i8, ignore_mac: bool) -> Response {
    unsafe { HRX = (HRX.0 + 1, ignore_mac, max_payload_len); }
    // any response kind Session::handle_rx's contract allows
    match tape::stub_u8() % 4 { 0 => Response::NoUpdate, 1 => Response::DownlinkReceived(tape::stub_u8() as u32), 2 => Response::SessionExpired, _ => Response::NoAck }
}
/// contract-stub of Otaa::handle_rx (its contract: dev_otaa.rs) for the hand-off harness: a JoinAccept may or may not be
/// accepted.  Mac::handle_rxc must not reach it at all; the stub only keeps real AES/CMAC out of the harness.
pub(crate) static mut OTAA_RX_CALLS: u8 = 0;
pub(crate) fn stub_otaa_handle_rx<const N: usize>(_o: &mut otaa::Otaa, _region: &mut region::Configuration, _configuration: &mut Configuration, _rx: &mut RadioBuffer<N>) -> Option<Session> {
    unsafe { OTAA_RX_CALLS += 1; }
    if tape::stub_bool() { Some(any_joined_session()) } else { None }
}
fn mac_rx_handoff(class_c: bool) {
    tape::init();
    let joined = tape::boolean();
    // not joined: never activated, or -- for the Class C hand-off -- an OTAA join in flight (the Class A hand-off of that state is
    // Otaa::handle_rx, whose contract is in dev_otaa.rs)
    let otaa = !joined && class_c && tape::boolean();
    let state = if joined { State::Joined(any_joined_session()) } else if otaa {
        State::Otaa(otaa::Otaa::new(NetworkCredentials::new(lorawan::keys::AppEui::from(tape::arr::<8>()), lorawan::keys::DevEui::from(tape::arr::<8>()), lorawan::keys::AppKey::from(tape::arr::<16>())))) } else { State::Unjoined };
    let mut m = any_mac(region::Configuration::new(region::Region::EU868), state);
    let old_cfg = m.configuration;
    let mut rx: RadioBuffer<64> = RadioBuffer::new();
    let mut dl: Vec<Downlink, 1> = Vec::new();
    let d = m.region.get_datarate(0).unwrap();
    let rf = RfConfig { frequency: tape::u32(), bb: BaseBandModulationParams::new(d.spreading_factor, d.bandwidth, m.region.get_coding_rate()), max_payload_len: tape::u8() };
    let snr = tape::i8();
    let h = unsafe { &*(&raw const HRX) };
    if class_c {
        #[cfg(feature = "class-c")]
        {
            let r = m.handle_rxc::<64, 1>(&mut rx, &mut dl, snr, &rf);
            if joined {
                assert!(r.is_ok() && h.0 == 1 && h.1 && h.2 == rf.max_payload_len, "C08/C10 a frame heard while listening Class C goes to the session once, with MAC commands ignored and the window's size limit");
            } else {
                assert!(r.is_err() && h.0 == 0 && m.configuration == old_cfg && !m.is_joined(), "C07 no session: a Class C frame changes nothing");
                // C04 (modular soundness): the front-ends' conversions of a Class C response (ListenResponse::from, the discarded
                // between_windows result inside join()) have panic arms for join responses; they rely on this
                assert!(unsafe { OTAA_RX_CALLS } == 0, "C04/C07 a frame heard on RXC is never treated as a JoinAccept");
                assert!(matches!(m.state, State::Otaa(_)) == otaa, "C04/C07 a frame heard on RXC while an OTAA join is in flight neither completes nor aborts the join: Mac::handle_rxc answers NotJoined and produces no join response");
            }
            kani::cover!(otaa, "verif-maybe: join in flight");
        }
    } else {
        let _r = m.handle_rx::<64, 1>(&mut rx, &mut dl, snr, &rf);
        if joined {
            assert!(h.0 == 1 && !h.1 && h.2 == rf.max_payload_len, "C08 a frame heard in a Class A window goes to the session once, MAC commands handled, with the window's size limit");
        } else {
            assert!(h.0 == 0 && m.configuration == old_cfg && !m.is_joined(), "C07 no session: a frame changes nothing");
        }
    }
    assert!(m.is_joined() == joined, "the hand-off neither creates nor destroys a session");
    kani::cover!(joined, "verif-reached: joined");
    kani::cover!(!joined, "verif-reached: not joined");
}
// @verif props=C04,C07,C08 obligation=Mac::handle_rx.handoff label=proved-complete tier=quick bound="joined (any session) or unjoined; Session::handle_rx contract-stubbed"
#[kani::proof]
#[kani::stub(crate::mac::session::Session::handle_rx, stub_session_handle_rx)]
#[kani::unwind(18)]
fn c07_mac_handle_rx_handoff() { mac_rx_handoff(false) }
// @verif props=C04,C07,C10 obligation=Mac::handle_rxc.handoff label=proved-complete tier=quick bound="joined (any session), unjoined, or OTAA join in flight; Session::handle_rx contract-stubbed"
#[kani::proof]
#[kani::stub(crate::mac::session::Session::handle_rx, stub_session_handle_rx)]
#[kani::stub(crate::mac::otaa::Otaa::handle_rx, stub_otaa_handle_rx)]
#[kani::unwind(18)]
fn c07_mac_handle_rxc_handoff() { mac_rx_handoff(true) }
