// Contracts + harnesses for lora-phy/src/sx126x (C15 LDRO, C17 PLL word / symbol timeout / power / status conversions, C18 payload read)
// @inject file=lora-phy/src/sx126x/mod.rs mod=verif_sx126x
// @job pkg=lora-phy zflags=function-contracts,stubbing
// @requires common_tape phy_common
use super::*;
use crate::verif_tape as tape;
use crate::verif_phy::*;

pub(crate) const SFS: [SpreadingFactor; 8] = [SpreadingFactor::_5, SpreadingFactor::_6, SpreadingFactor::_7, SpreadingFactor::_8, SpreadingFactor::_9, SpreadingFactor::_10, SpreadingFactor::_11, SpreadingFactor::_12];
pub(crate) const BWS: [Bandwidth; 10] = [Bandwidth::_7KHz, Bandwidth::_10KHz, Bandwidth::_15KHz, Bandwidth::_20KHz, Bandwidth::_31KHz, Bandwidth::_41KHz, Bandwidth::_62KHz, Bandwidth::_125KHz, Bandwidth::_250KHz, Bandwidth::_500KHz];
/// C15: on exactly when the symbol time 2^SF/BW is at least 16.38 ms (exact integers)
pub(crate) fn spec_ldro(sf: SpreadingFactor, bw: Bandwidth) -> bool { (1u64 << sf.factor()) * 100_000 >= 1638 * bw.hz() as u64 }

pub(crate) fn radio() -> Sx126x<MockSpi, MockIv, Sx1262> {
    Sx126x::new(MockSpi, MockIv, Config { chip: Sx1262, tcxo_ctrl: None, use_dcdc: true, rx_boost: false })
}

// ------------------------------------------------------------------------------------------------ C15 LDRO
// @verif props=C15 obligation=Sx126x::create_modulation_params.ldro label=proved-complete tier=quick bound="all 8 SF x 10 BW x frequency symbolic (exhaustive)"
#[kani::proof]
#[kani::unwind(12)]
fn c15_sx126x_ldro() {
    tape::init();
    let r = radio();
    let f = tape::u32();
    let cr = [CodingRate::_4_5, CodingRate::_4_6, CodingRate::_4_7, CodingRate::_4_8][tape::below(4)];
    let mut s = 0;
    while s < 8 {
        let mut b = 0;
        while b < 10 {
            if let Ok(p) = r.create_modulation_params(SFS[s], BWS[b], cr, f) {
                assert!(p.low_data_rate_optimize == spec_ldro(SFS[s], BWS[b]) as u8, "C15 SX126x LDRO on exactly when the symbol time is >= 16.38 ms");
                assert!(p.spreading_factor == SFS[s] && p.bandwidth == BWS[b] && p.coding_rate == cr && p.frequency_in_hz == f, "parameters passed through");
            }
            b += 1;
        }
        s += 1;
    }
    kani::cover!(true, "verif-reached: end");
}

// the shared helper all four drivers call (lora-phy/src/mod_params.rs); its contract is what the Verus group `lr11xx`
// ASSUMES for the LR11xx driver, discharged here on the real code for all 80 pairs
// @verif props=C15 obligation=mod_params::low_data_rate_optimize.contract label=proved-complete tier=quick bound="all 8 SF x 10 BW (exhaustive)"
#[kani::proof]
#[kani::unwind(12)]
fn c15_shared_helper_ldro() {
    tape::init();
    let mut s = 0;
    while s < 8 {
        let mut b = 0;
        while b < 10 {
            assert!(crate::mod_params::low_data_rate_optimize(SFS[s], BWS[b]) == spec_ldro(SFS[s], BWS[b]) as u8, "C15 shared LDRO decision: 1 exactly when the symbol time is >= 16.38 ms, else 0");
            b += 1;
        }
        s += 1;
    }
    kani::cover!(true, "verif-reached: end");
}

// the LDRO field on the wire is the one decided above: SetModulationParams [0x8B, SF, BW, CR, LDRO]
// @verif props=C15 obligation=Sx126x::set_modulation_params.wire_ldro label=proved-complete tier=quick
#[kani::proof]
#[kani::unwind(14)]
fn c15_sx126x_wire_ldro() {
    tape::init();
    let mut r = radio();
    let p = ModulationParams { spreading_factor: SFS[tape::below(8)], bandwidth: BWS[tape::below(10)], coding_rate: CodingRate::_4_5, low_data_rate_optimize: tape::u8() & 1, frequency_in_hz: tape::u32() };
    let res = r.set_modulation_params(&p);
    let g = unsafe { &*(&raw const SPI) };
    if res.is_ok() {
        assert!(g.n >= 1 && g.wl[0] == 5 && g.w[0][0] == 0x8B && g.w[0][4] == p.low_data_rate_optimize, "C15 SetModulationParams carries the decided LDRO value");
        assert!(g.w[0][1] == p.spreading_factor.factor() as u8, "SetModulationParams SF field");
    }
    kani::cover!(res.is_ok(), "verif-reached: programmed");
}

// ------------------------------------------------------------------------------------------------ C17
// symbol-count timeout: datasheet 13.4.9 SetLoRaSymbNumTimeout: value = mant * 2^(2 exp + 1), register 0x0706 = exp + mant << 3
// @verif props=C17 obligation=Sx126x::set_lora_symbol_num_timeout.contract label=proved-complete tier=quick bound="all 65536 symbol counts"
#[kani::proof]
#[kani::unwind(14)]
fn c17_sx126x_symbol_timeout() {
    tape::init();
    let mut r = radio();
    let n = tape::u16();
    let res = r.set_lora_symbol_num_timeout(n);
    let g = unsafe { &*(&raw const SPI) };
    assert!(res.is_ok() && g.n >= 1 && g.w[0][0] == 0xA0 && g.wl[0] == 2, "SetLoRaSymbNumTimeout issued");
    let val = g.w[0][1];
    if n > 0 {
        assert!(g.n == 2 && g.wl[1] == 4 && g.w[1][0] == 0x0D && g.w[1][1] == 0x07 && g.w[1][2] == 0x06, "mantissa/exponent written to SynchTimeout (0x0706)");
        let reg = g.w[1][3];
        let exp = (reg & 0x07) as u32;
        let mant = (reg >> 3) as u32;
        let decoded = mant << (2 * exp + 1);
        assert!(mant <= 31, "C17 mantissa fits its 5-bit field");
        assert!(decoded >= core::cmp::min(n as u32, 248), "C17 the programmed symbol timeout is never shorter than requested, up to the chip maximum (248)");
        assert!(val as u32 == decoded, "command byte and register describe the same timeout");
    } else {
        assert!(val == 0 && g.n == 1, "0 symbols: timeout disabled");
    }
    kani::cover!(n > 248, "verif-reached: clamped");
    kani::cover!(n > 0 && n < 64, "verif-reached: small");
}

// PA tables: decode SetTxParams with the datasheet rule (row anchor minus shortfall)
fn pa_lookup_contract(t: &PaTable) {
    let req = tape::i32();
    let (row, txp) = t.lookup(req);
    let max = t.entries[t.entries.len() - 1].max_dbm as i32;
    let target = req.clamp(t.min_dbm as i32, max);
    let decoded = row.max_dbm as i32 - (row.tx_params_at_max as i32 - (txp as i8) as i32);
    assert!(decoded == target, "C17 PA row + SetTxParams decode to the requested power clamped into the chip's range");
    assert!(target <= req || req < t.min_dbm as i32, "C17 never above the request inside the range");
    assert!(row.max_dbm as i32 >= target, "the chosen row covers the target");
    kani::cover!(req > max, "verif-reached: clamped high");
    kani::cover!(req < t.min_dbm as i32, "verif-reached: clamped low");
}
// @verif props=C17 obligation=PaTable::lookup.contract[SX1261,SX1262,STM32WL-HP] label=proved-complete tier=quick bound="all i32 requests x the three shipped tables"
#[kani::proof]
#[kani::unwind(8)]
fn c17_pa_table_lookup() {
    tape::init();
    pa_lookup_contract(&variant::SX1261_PA_TABLE);
    pa_lookup_contract(&variant::SX1262_PA_TABLE);
    pa_lookup_contract(&variant::STM32WL_HP_PA_TABLE);
}

// packet status: datasheet 13.5.3 GetPacketStatus (0x14): RssiPkt = -raw0/2 dBm, SnrPkt = raw1 (two's complement)/4 dB.
// The chip's answer is read back from the SPI contract-stub's read log: [status, raw0 (RssiPkt), raw1 (SnrPkt), raw2 (SignalRssiPkt)].
// @verif props=C17,C18,C04 obligation=Sx126x::get_rx_packet_status.contract label=proved-complete tier=quick bound="all 2^32 status/raw byte combinations"
#[kani::proof]
#[kani::unwind(14)]
fn c17_sx126x_packet_status() {
    tape::init();
    let mut r = radio();
    let res = r.get_rx_packet_status();          // the chip answers with arbitrary bytes (MockSpi); must not panic
    let g = unsafe { &*(&raw const SPI) };
    assert!(g.n >= 1 && g.w[0][0] == 0x14 && g.rdn >= 3, "GetPacketStatus (0x14): status, RssiPkt and SnrPkt read");
    let (status, raw_rssi, raw_snr) = (g.rd[0], g.rd[1] as i32, g.rd[2] as i8 as i32);
    let _ = status;      // which command-status values the driver turns into an error is its own business; the conversion of a RESULT is the property
    if let Ok(st) = res {
        assert!(st.rssi <= 0 && st.rssi >= -128, "C17 RSSI = -raw/2 within rounding");
        assert!(st.snr >= -32 && st.snr <= 32, "C17 SNR = raw/4 within rounding");
        let (rssi, snr) = (st.rssi as i32, st.snr as i32);
        assert!(2 * rssi == -raw_rssi || 2 * rssi == -raw_rssi - 1 || 2 * rssi == -raw_rssi + 1, "C17 reported RSSI agrees with -RssiPkt/2 (the FIRST status byte) to within rounding");
        assert!((4 * snr - raw_snr).abs() <= 4, "C17 reported SNR agrees with the signed SnrPkt/4 (the SECOND status byte) to within rounding (1 dB)");
    }
    kani::cover!(res.is_ok(), "verif-reached: status ok");
    kani::cover!(res.is_err(), "verif-reached: status error");
}
// instantaneous RSSI: datasheet 13.5.4 GetRssiInst (0x15): RssiInst = -raw/2 dBm
// @verif props=C17 obligation=Sx126x::get_rssi.contract label=proved-complete tier=quick bound="all 2^16 status/raw byte combinations"
#[kani::proof]
#[kani::unwind(14)]
fn c17_sx126x_get_rssi() {
    tape::init();
    let mut r = radio();
    let res = r.get_rssi();
    let g = unsafe { &*(&raw const SPI) };
    assert!(g.n >= 1 && g.w[0][0] == 0x15 && g.rdn >= 2, "GetRssiInst (0x15): status and RssiInst read");
    let (status, raw) = (g.rd[0], g.rd[1] as i32);
    let _ = status;
    if let Ok(v) = res { let v = v as i32; assert!(2 * v == -raw || 2 * v == -raw - 1 || 2 * v == -raw + 1, "C17 instantaneous RSSI agrees with -RssiInst/2 to within rounding"); }
    kani::cover!(res.is_ok(), "verif-reached: rssi ok");
}

// frequency: datasheet 13.4.1 SetRfFrequency (0x86) carries the 32-bit synthesiser word MSB first.  The word itself is
// convert_freq_in_hz_to_pll_step(f), whose contract (nearest step, |word * 15625 - f * 2^14| <= 2^13) is the Verus unit
// `Sx126x::convert_freq_in_hz_to_pll_step` (group phyarith, unbounded).  Here the conversion is replaced by its contract-stub
// (CBMC does not finish on the 32-bit division, 561 s measured): it must be called exactly once, with the requested frequency,
// and the word it returns -- any word -- must be what goes on the wire.
pub(crate) static mut CONV_CALLS: u32 = 0;
pub(crate) static mut CONV_ARG: u32 = 0;
pub(crate) static mut CONV_RET: u32 = 0;
fn stub_convert_freq<SPI, IV, C>(freq_in_hz: u32) -> u32 { unsafe { CONV_CALLS += 1; CONV_ARG = freq_in_hz; CONV_RET = u32::from_le_bytes(tape::stub_arr::<4>()); CONV_RET } }
// @verif props=C17 obligation=Sx126x::set_channel.wire label=proved-complete tier=quick bound="every u32 frequency; the PLL-step conversion is contract-stubbed (its contract: Verus unit Sx126x::convert_freq_in_hz_to_pll_step)"
#[kani::proof]
#[kani::unwind(14)]
#[kani::stub(Sx126x::convert_freq_in_hz_to_pll_step, stub_convert_freq)]
fn c17_sx126x_set_channel_wire() {
    tape::init();
    let mut r = radio();
    let f = tape::u32();
    let res = r.set_channel(f);
    let g = unsafe { &*(&raw const SPI) };
    assert!(unsafe { CONV_CALLS == 1 && CONV_ARG == f }, "C17 the synthesiser word is computed from the requested frequency");
    if res.is_ok() {
        assert!(g.n == 1 && g.wl[0] == 5 && g.w[0][0] == 0x86, "set_channel issues exactly one SetRfFrequency");
        assert!(u32::from_be_bytes([g.w[0][1], g.w[0][2], g.w[0][3], g.w[0][4]]) == unsafe { CONV_RET }, "C17 the synthesiser word on the wire (MSB first) is the PLL-step conversion of the requested frequency");
    }
    kani::cover!(res.is_ok() && f > 868_000_000, "verif-reached: programmed");
}

// TX power: datasheet 13.1.14 SetPaConfig (0x95: paDutyCycle, hpMax, deviceSel, paLut = 1) and 13.4.4 SetTxParams (0x8E: power, ramp).
// DECODE, written from the datasheet's Table 13-21 (optimal settings) and its rule that powers between the optimal points are
// reached by lowering SetTxParams one for one; STM32WL: ST's table (STM32CubeWL radio_driver.c) anchors the lowest HP row at 14/14.
//   SX1261 (deviceSel 1):  (duty 6, hpMax 0) anchor +15 dBm @ 14;  (4, 0) +14 @ 14;  (1, 0) +10 @ 13;   SetTxParams range -17..=14
//   SX1262 (deviceSel 0):  (4, 7) +22 @ 22;  (3, 5) +20 @ 22;  (2, 3) +17 @ 22;  (2, 2) +14 @ 22 (STM32WL HP: +14 @ 14);  range -9..=22
fn decode_pa(lp: bool, stm_hp: bool, duty: u8, hp_max: u8, txp: i32) -> Option<i32> {
    let anchor = if lp { match (duty, hp_max) { (6, 0) => (15, 14), (4, 0) => (14, 14), (1, 0) => (10, 13), _ => return None } }
                 else { match (duty, hp_max) { (4, 7) => (22, 22), (3, 5) => (20, 22), (2, 3) => (17, 22), (2, 2) => if stm_hp { (14, 14) } else { (14, 22) }, _ => return None } };
    Some(anchor.0 - (anchor.1 - txp))
}
fn tx_power_wire_contract<C: Sx126xVariant>(chip: C, lp: bool, stm_hp: bool) {
    let mut r = Sx126x::new(MockSpi, MockIv, Config { chip, tcxo_ctrl: None, use_dcdc: true, rx_boost: false });
    let req = tape::i32();
    let with_params = tape::boolean();
    let m = ModulationParams { spreading_factor: SpreadingFactor::_7, bandwidth: Bandwidth::_125KHz, coding_rate: CodingRate::_4_5, low_data_rate_optimize: 0, frequency_in_hz: tape::u32() };
    let is_tx_prep = tape::boolean();
    let res = r.set_tx_power_and_ramp_time(req, if with_params { Some(&m) } else { None }, is_tx_prep);
    let g = unsafe { &*(&raw const SPI) };
    // locate the two PA commands in the log
    let (mut pa, mut txp, mut clamp_w): (Option<usize>, Option<usize>, Option<usize>) = (None, None, None);
    let mut k = 0;
    while k < LOG_LEN { if k < g.n { if g.w[k][0] == 0x95 { pa = Some(k); } if g.w[k][0] == 0x8E { txp = Some(k); } if g.w[k][0] == 0x0D { clamp_w = Some(k); } } k += 1; }
    let (min, max) = if lp { (-17, 15) } else { (-9, 22) };
    if lp && req >= 15 && with_params && m.frequency_in_hz < 400_000_000 {
        assert!(res.is_err() && pa.is_none() && txp.is_none(), "C17 SX1261: +15 dBm is not available below 400 MHz (paDutyCycle limit): refused, nothing programmed");
    } else if res.is_ok() {
        assert!(pa.is_some() && txp.is_some() && pa.unwrap() < txp.unwrap(), "SetPaConfig then SetTxParams");
        let (a, t) = (g.w[pa.unwrap()], g.w[txp.unwrap()]);
        assert!(g.wl[pa.unwrap()] == 5 && a[3] == lp as u8 && a[4] == 0x01, "SetPaConfig: deviceSel selects the PA the variant has, paLut = 1");
        assert!(g.wl[txp.unwrap()] == 3, "SetTxParams: power, ramp time");
        let _ = is_tx_prep;      // the ramp time is not part of C17
        let p = t[1] as i8 as i32;
        assert!(if lp { p >= -17 && p <= 14 } else { p >= -9 && p <= 22 }, "C17 SetTxParams power inside the PA's legal range");
        let dec = decode_pa(lp, stm_hp, a[1], a[2], p);
        assert!(dec.is_some(), "C17 SetPaConfig is one of the datasheet's optimal settings for this PA");
        let target = req.clamp(min, max);
        assert!(dec.unwrap() == target, "C17 PA configuration + SetTxParams decode (datasheet Table 13-21) to the requested power clamped into the chip's range");
        assert!(dec.unwrap() <= req || req < min, "C17 never above the request inside the range");
        let _ = clamp_w;         // the SX1262 TxClampCfg workaround (datasheet 15.2) is not part of C17: not an obligation
    }
    kani::cover!(res.is_ok() && req > max, "verif-reached: clamped high");
    kani::cover!(res.is_ok() && req < min, "verif-reached: clamped low");
    kani::cover!(res.is_ok() && req == 10, "verif-reached: inside the range");
}
// @verif props=C17 obligation=Sx126x<Sx1261>::set_tx_power_and_ramp_time.wire_decode label=proved-complete tier=quick bound="every i32 request, every frequency, with/without modulation parameters, both ramp uses"
#[kani::proof]
#[kani::unwind(26)]
fn c17_sx1261_tx_power_wire() { tape::init(); tx_power_wire_contract(Sx1261, true, false) }
// @verif props=C17 obligation=Sx126x<Sx1262>::set_tx_power_and_ramp_time.wire_decode label=proved-complete tier=quick bound="every i32 request, every frequency, with/without modulation parameters, both ramp uses"
#[kani::proof]
#[kani::unwind(26)]
fn c17_sx1262_tx_power_wire() { tape::init(); tx_power_wire_contract(Sx1262, false, false) }
// @verif props=C17 obligation=Sx126x<Stm32wl-HP>::set_tx_power_and_ramp_time.wire_decode label=proved-complete tier=quick bound="every i32 request, every frequency, with/without modulation parameters, both ramp uses"
#[kani::proof]
#[kani::unwind(26)]
fn c17_stm32wl_hp_tx_power_wire() { tape::init(); tx_power_wire_contract(Stm32wl { use_high_power_pa: true }, false, true) }
// @verif props=C17 obligation=Sx126x<Stm32wl-LP>::set_tx_power_and_ramp_time.wire_decode label=proved-complete tier=quick bound="every i32 request, every frequency, with/without modulation parameters, both ramp uses"
#[kani::proof]
#[kani::unwind(26)]
fn c17_stm32wl_lp_tx_power_wire() { tape::init(); tx_power_wire_contract(Stm32wl { use_high_power_pa: false }, true, false) }

// single reception: the symbol-count timeout programmed by do_rx is the one asked for (C17 "never shorter than requested"
// then follows from Sx126x::set_lora_symbol_num_timeout.contract); continuous / duty-cycle: no symbol timeout
// @verif props=C17,C10 obligation=Sx126x::do_rx.symbol_timeout_passed label=proved-complete tier=quick bound="single (any symbol count), continuous, duty cycle"
#[kani::proof]
#[kani::unwind(26)]
fn c17_sx126x_do_rx_symbol_timeout() {
    tape::init();
    let mut r = radio();
    let k = tape::below(3);
    let n = tape::u16();
    let mode = match k { 0 => RxMode::Single(n), 1 => RxMode::Continuous, _ => RxMode::DutyCycle(DutyCycleParams { rx_time: tape::u32(), sleep_time: tape::u32() }) };
    let res = r.do_rx(mode);
    let g = unsafe { &*(&raw const SPI) };
    if res.is_ok() {
        let mut val: Option<u8> = None; let mut i = 0;
        while i < LOG_LEN { if i < g.n && g.w[i][0] == 0xA0 { val = Some(g.w[i][1]); } i += 1; }
        assert!(val.is_some(), "SetLoRaSymbNumTimeout issued before the reception starts");
        let v = val.unwrap() as u32;
        if k == 0 { assert!(v >= core::cmp::min(n as u32, 248), "C17 the symbol timeout in force for a single reception covers the requested count (up to the chip maximum)"); assert!(n != 0 || v == 0, "0 = no symbol timeout"); }
        else { assert!(v == 0, "continuous / duty-cycle reception: symbol timeout disabled"); }
    }
    kani::cover!(res.is_ok() && k == 0 && n > 5, "verif-reached: single");
}

// ------------------------------------------------------------------------------------------------ C18
// @verif props=C18,C04 obligation=Sx126x::get_rx_payload.contract label=proved-complete tier=quick bound="caller buffer length 0..40 symbolic, all reported lengths/offsets/status bytes, explicit and implicit header"
#[kani::proof]
#[kani::unwind(42)]
fn c18_sx126x_get_rx_payload() {
    tape::init();
    let mut r = radio();
    let cap = tape::below(41);
    let mut buf = [0xA5u8; 40];
    let pp = PacketParams { preamble_length: 8, implicit_header: tape::boolean(), payload_length: tape::u8(), crc_on: true, iq_inverted: true };
    let res = r.get_rx_payload(&pp, &mut buf[..cap]);
    let g = unsafe { &*(&raw const SPI) };
    match res {
        Ok(n) => {
            assert!(n as usize <= cap, "C18 returned length never exceeds the caller's buffer");
            // the last SPI write is ReadBuffer at the reported offset
            let last = g.n - 1;
            assert!(g.w[last][0] == 0x1E && g.wl[last] == 3, "C18 payload fetched with ReadBuffer at the reported offset");
            let mut i = 0;
            while i < 40 { if i >= n as usize { assert!(buf[i] == 0xA5, "C18 bytes beyond the packet are left untouched"); } i += 1; }
        }
        Err(_) => {
            let mut i = 0;
            while i < 40 { assert!(buf[i] == 0xA5, "C18 on error the caller's buffer is untouched"); i += 1; }
        }
    }
    kani::cover!(matches!(res, Err(RadioError::PayloadSizeMismatch(_, _))), "verif-reached: chip reports more than the buffer holds");
    kani::cover!(res.is_ok(), "verif-reached: ok");
}

// ------------------------------------------------------------------------------------------------ C14: A-chip refinement (SX126x)
// The C14 harnesses (phy_lora.rs) run LoRa<RK> against an ABSTRACT chip whose mode changes are tied to RadioKind methods
// (set_standby -> standby, set_sleep -> asleep / cold = configuration lost, do_tx/do_rx/do_cad -> leaves standby,
// ensure_ready(Sleep | duty cycle) -> woken).  The obligations below discharge that tie for the REAL SX126x driver against
// the datasheet command set (SX1261/2 DS rev 2.1, 13.1): SetSleep 0x84 (sleepConfig bit 2 = warm start / retention,
// bit 0 = RTC wake-up), SetStandby 0x80 (0 = STDBY_RC), SetTx 0x83, SetRx 0x82 (0xFFFFFF = continuous), SetRxDutyCycle 0x94,
// SetCad 0xC5, GetStatus 0xC0 (any NSS falling edge wakes the chip).  What stays assumed: the silicon implements the datasheet.
fn last_cmd() -> (u8, usize, [u8; 12]) { let g = unsafe { &*(&raw const SPI) }; if g.n == 0 { (0, 0, [0; 12]) } else { (g.w[g.n - 1][0], g.wl[g.n - 1], g.w[g.n - 1]) } }
fn mode_changing(op: u8) -> bool { matches!(op, 0x84 | 0x80 | 0xC1 | 0x83 | 0x82 | 0x94 | 0xC5 | 0xD1 | 0xD2) }
/// no command of the log, except possibly the last one, changes the chip's operating mode
fn only_last_changes_mode() -> bool { let g = unsafe { &*(&raw const SPI) }; let mut i = 0; let mut ok = true; while i < LOG_LEN { if i + 1 < g.n && mode_changing(g.w[i][0]) { ok = false; } i += 1; } ok && g.n < LOG_LEN }

// @verif props=C14 obligation=Sx126x::set_standby.chip_mode label=proved-complete tier=quick
#[kani::proof]
#[kani::unwind(26)]
fn c14_sx126x_set_standby() {
    tape::init();
    let mut r = radio();
    let res = r.set_standby();
    let g = unsafe { &*(&raw const SPI) };
    if res.is_ok() { assert!(g.n == 1 && g.wl[0] == 2 && g.w[0][0] == 0x80 && g.w[0][1] == 0x00, "C14 set_standby commands SetStandby(STDBY_RC) and nothing else: chip in standby afterwards"); }
    kani::cover!(res.is_ok(), "verif-reached: standby commanded");
}
// @verif props=C14 obligation=Sx126x::set_sleep.chip_mode label=proved-complete tier=quick
#[kani::proof]
#[kani::unwind(26)]
fn c14_sx126x_set_sleep() {
    tape::init();
    let mut r = radio();
    let warm = tape::boolean();
    let res = r.set_sleep(warm, &mut MockDelay);
    let g = unsafe { &*(&raw const SPI) };
    if res.is_ok() {
        assert!(g.n == 1 && g.wl[0] == 2 && g.w[0][0] == 0x84, "C14 set_sleep commands SetSleep and nothing else");
        assert!((g.w[0][1] & 0x04 != 0) == warm && g.w[0][1] & 0x01 == 0 && g.w[0][1] & 0xfa == 0, "C14 SetSleep: configuration retained exactly when a warm start was asked for (cold sleep loses it, as the driver's cold_start bookkeeping assumes); no RTC wake-up, RFU bits clear");
    }
    kani::cover!(res.is_ok() && warm, "verif-reached: warm sleep");
    kani::cover!(res.is_ok() && !warm, "verif-reached: cold sleep");
}
// @verif props=C14 obligation=Sx126x::ensure_ready.wakes label=proved-complete tier=quick bound="every RadioMode (RX modes with any symbol count / duty cycle arguments)"
#[kani::proof]
#[kani::unwind(26)]
fn c14_sx126x_ensure_ready() {
    tape::init();
    let mut r = radio();
    let k = tape::below(9);
    let mode = match k { 0 => RadioMode::Sleep, 1 => RadioMode::Standby, 2 => RadioMode::Transmit, 3 => RadioMode::ChannelActivityDetection, 7 => RadioMode::FrequencySynthesis, 8 => RadioMode::Listen,
        4 => RadioMode::Receive(RxMode::Single(tape::u16())), 5 => RadioMode::Receive(RxMode::Continuous), _ => RadioMode::Receive(RxMode::DutyCycle(DutyCycleParams { rx_time: tape::u32(), sleep_time: tape::u32() })) };
    let res = r.ensure_ready(mode);
    let g = unsafe { &*(&raw const SPI) };
    if res.is_ok() {
        if k == 0 || k == 6 { assert!(g.n == 1 && g.w[0][0] == 0xC0 && g.wl[0] == 2, "C14 a chip that may be asleep (Sleep, RX duty cycle) is woken with a GetStatus transaction before anything else is sent"); }
        else { assert!(g.n == 0, "C14 in every other mode ensure_ready only waits on BUSY: no command"); }
    }
    kani::cover!(res.is_ok() && k == 0, "verif-reached: woken from sleep");
    kani::cover!(res.is_ok() && k == 2, "verif-reached: busy wait only");
}
// @verif props=C14 obligation=Sx126x::do_tx.chip_mode label=proved-complete tier=quick
#[kani::proof]
#[kani::unwind(26)]
fn c14_sx126x_do_tx() {
    tape::init();
    let mut r = radio();
    let res = r.do_tx();
    let (op, len, b) = last_cmd();
    if res.is_ok() { assert!(op == 0x83 && len == 4 && b[1] == 0 && b[2] == 0 && b[3] == 0 && only_last_changes_mode(), "C14 do_tx ends with SetTx (no chip-side timeout: the driver's own IRQ wait decides) and commands no other mode change"); }
    kani::cover!(res.is_ok(), "verif-reached: tx started");
}
// @verif props=C14 obligation=Sx126x::do_rx.chip_mode label=proved-complete tier=quick bound="single (any symbol count), continuous, duty cycle (any times)"
#[kani::proof]
#[kani::unwind(26)]
fn c14_sx126x_do_rx() {
    tape::init();
    let mut r = radio();
    let k = tape::below(3);
    let mode = match k { 0 => RxMode::Single(tape::u16()), 1 => RxMode::Continuous, _ => RxMode::DutyCycle(DutyCycleParams { rx_time: tape::u32(), sleep_time: tape::u32() }) };
    let res = r.do_rx(mode);
    let (op, len, b) = last_cmd();
    if res.is_ok() {
        assert!(only_last_changes_mode(), "C14 do_rx commands exactly one mode change, last");
        match k {
            0 => assert!(op == 0x82 && len == 4 && b[1] == 0 && b[2] == 0 && b[3] == 0, "C14 single reception: SetRx with the chip timer off (the symbol-count timeout ends the window)"),
            1 => assert!(op == 0x82 && len == 4 && b[1] == 0xff && b[2] == 0xff && b[3] == 0xff, "C14 continuous reception: SetRx(0xFFFFFF)"),
            _ => assert!(op == 0x94 && len == 7, "C14 duty-cycle reception: SetRxDutyCycle"),
        }
    }
    kani::cover!(res.is_ok() && k == 0, "verif-reached: single");
    kani::cover!(res.is_ok() && k == 2, "verif-reached: duty cycle");
}
// @verif props=C14 obligation=Sx126x::do_cad.chip_mode label=proved-complete tier=quick bound="all 8 SF x 10 BW"
#[kani::proof]
#[kani::unwind(26)]
fn c14_sx126x_do_cad() {
    tape::init();
    let mut r = radio();
    let p = ModulationParams { spreading_factor: SFS[tape::below(8)], bandwidth: BWS[tape::below(10)], coding_rate: CodingRate::_4_5, low_data_rate_optimize: 0, frequency_in_hz: tape::u32() };
    let res = r.do_cad(&p);
    let (op, len, _b) = last_cmd();
    if res.is_ok() { assert!(op == 0xC5 && len == 1 && only_last_changes_mode(), "C14 do_cad ends with SetCad and commands no other mode change"); }
    kani::cover!(res.is_ok(), "verif-reached: cad started");
}

// ------------------------------------------------------------------------------------------------ C14/C17: nothing survives a reset / cold sleep
// History obligation on the REAL driver: channel f0, then optionally a hardware reset or a COLD sleep + wake-up (both lose the
// chip's configuration), then channel f: a SetRfFrequency carrying the word of f is sent AFTER the reset / sleep -- also when
// f == f0.  The PLL conversion is an uninterpreted function (same argument, same word).
fn stub_convert_freq_uf<SPI, IV, C>(freq_in_hz: u32) -> u32 { uf_apply(freq_in_hz) }
// @verif props=C14,C17 obligation=Sx126x::set_channel.history[channel; reset|cold sleep?; channel] label=proved-complete tier=quick bound="any two frequencies (equal or not); nothing / hardware reset / cold sleep and wake-up in between"
#[kani::proof]
#[kani::unwind(26)]
#[kani::stub(Sx126x::convert_freq_in_hz_to_pll_step, stub_convert_freq_uf)]
fn c14_sx126x_channel_after_reset() {
    tape::init();
    let mut r = radio();
    let (f0, f) = (tape::u32(), tape::u32());
    let first = r.set_channel(f0);
    let between = tape::below(3);
    let mut lost_at = 0usize;
    if between == 1 { let _ = r.reset(&mut MockDelay); lost_at = unsafe { (&*(&raw const SPI)).n }; }
    if between == 2 { let _ = r.set_sleep(false, &mut MockDelay); let _ = r.ensure_ready(RadioMode::Sleep); lost_at = unsafe { (&*(&raw const SPI)).n }; }
    let res = r.set_channel(f);
    let g = unsafe { &*(&raw const SPI) };
    if first.is_ok() && res.is_ok() {
        // the LAST SetRfFrequency of the log, and where it is
        let mut last: Option<usize> = None; let mut k = 0;
        while k < LOG_LEN { if k < g.n && g.w[k][0] == 0x86 && g.wl[k] == 5 { last = Some(k); } k += 1; }
        assert!(last.is_some(), "SetRfFrequency sent");
        let i = last.unwrap();
        assert!(u32::from_be_bytes([g.w[i][1], g.w[i][2], g.w[i][3], g.w[i][4]]) == uf_apply(f), "C17 the frequency in force in the chip is the one requested last");
        assert!(between == 0 || i >= lost_at, "C14/C17 after a reset or cold sleep the frequency is programmed again, even if it is the one programmed before");
    }
    kani::cover!(first.is_ok() && res.is_ok() && between == 1 && f == f0, "verif-reached: same channel again after a reset");
    kani::cover!(first.is_ok() && res.is_ok() && between == 2 && f == f0, "verif-reached: same channel again after a cold sleep");
}
