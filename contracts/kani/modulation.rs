// Contracts + harnesses for lora-modulation (C15 airtime side, C16, C17 symbol conversions).
// @inject file=lora-modulation/src/lib.rs mod=verif_modulation
// @job pkg=lora-modulation zflags=function-contracts
// @requires common_tape
//
// The contract of `time_on_air_us` is the Semtech modem airtime formula (AN1200.13 / SX127x
// datasheet 4.1.1.7) evaluated in exact (64-bit, no overflow possible) integer arithmetic with the
// parameter set's own symbol time and LDRO flag:
//     n_payload = 8 + max(ceil((8 PL - 4 SF + 28 + 16 - 20 H) / (4 (SF - 2 DE))), 0) * (CR + 4)
//     T = n_payload * Tsym                                   (preamble == None)
//     T = floor((4 n_pre + 17 + 4 n_payload) * Tsym / 4)     (preamble == Some(n_pre): n_pre + 4.25 symbols)
//
// @contract file=lora-modulation/src/lib.rs fn=impl BaseBandModulationParams :: fn time_on_air_us
// | #[cfg_attr(kani, kani::ensures(|r: &u32| *r as u64 == crate::verif_modulation::spec_toa(self, preamble, explicit_header, len)))]
use super::*;
use crate::verif_tape as tape;

pub(crate) const SFS: [SpreadingFactor; 8] = [
    SpreadingFactor::_5, SpreadingFactor::_6, SpreadingFactor::_7, SpreadingFactor::_8,
    SpreadingFactor::_9, SpreadingFactor::_10, SpreadingFactor::_11, SpreadingFactor::_12,
];
pub(crate) const BWS: [Bandwidth; 10] = [
    Bandwidth::_7KHz, Bandwidth::_10KHz, Bandwidth::_15KHz, Bandwidth::_20KHz, Bandwidth::_31KHz,
    Bandwidth::_41KHz, Bandwidth::_62KHz, Bandwidth::_125KHz, Bandwidth::_250KHz, Bandwidth::_500KHz,
];
pub(crate) const CRS: [CodingRate; 4] = [CodingRate::_4_5, CodingRate::_4_6, CodingRate::_4_7, CodingRate::_4_8];

/// exact symbol time in micro seconds, truncated as documented (`t_sym_us`)
pub(crate) fn spec_tsym_us(sf: SpreadingFactor, bw: Bandwidth) -> u64 {
    ((1u64 << sf.factor()) * 1_000_000) / bw.hz() as u64
}

/// C15: "on exactly when the symbol time 2^SF/BW is at least 16.38 ms", in exact integers
pub(crate) fn spec_ldro(sf: SpreadingFactor, bw: Bandwidth) -> bool {
    (1u64 << sf.factor()) * 100_000 >= 1638 * bw.hz() as u64
}

pub(crate) fn spec_toa(p: &BaseBandModulationParams, preamble: Option<u8>, explicit_header: bool, len: u8) -> u64 {
    let sf = p.sf.factor() as i64;
    let t = spec_tsym_us(p.sf, p.bw) as i64;
    let cr = p.cr.denom() as i64; // CR + 4
    let de: i64 = if p.ldro { 1 } else { 0 };
    let h: i64 = if explicit_header { 0 } else { 1 };
    let num: i64 = 8 * len as i64 - 4 * sf + 28 + 16 - 20 * h;
    let den: i64 = 4 * (sf - 2 * de);
    // max(ceil(num/den), 0) with a mathematically correct ceiling: den > 0 always (SF >= 5)
    let ceil0: i64 = if num > 0 { (num + den - 1) / den } else { 0 };
    let n = 8 + ceil0 * cr;
    (match preamble {
        None => t * n,
        Some(pre) => (4 * pre as i64 + 17 + 4 * n) * t / 4,
    }) as u64
}

fn any_cr() -> CodingRate { CRS[tape::below(4)] }
fn any_bw() -> Bandwidth { BWS[tape::below(10)] }

/// One spreading factor per harness (concrete), bandwidth / coding rate / header / length / preamble symbolic:
/// exactly one top-level call, so the function contract is what is checked (proof_for_contract).
/// The 8 harnesses together cover the whole 8 x 10 x 4 x 256 x 2 x 257 space.
fn toa_contract_for(sf: SpreadingFactor) {
    tape::init();
    let p = BaseBandModulationParams::new(sf, any_bw(), any_cr());
    let preamble: Option<u8> = tape::opt_u8();
    let explicit: bool = tape::boolean();
    let len: u8 = tape::u8();
    let r = p.time_on_air_us(preamble, explicit, len);
    // the same postcondition once more as a plain assertion, so that a concrete playback of a
    // counterexample (native execution, where contract attributes are inert) still fails
    assert!(r as u64 == spec_toa(&p, preamble, explicit, len), "time_on_air_us == Semtech formula");
    kani::cover!(true, "verif-reached: end of harness");
}
// @verif props=C16 obligation=time_on_air_us.contract[SF5] label=proved-complete tier=quick unit=time_on_air_us
#[kani::proof_for_contract(BaseBandModulationParams::time_on_air_us)]
fn c16_toa_sf5() { toa_contract_for(SpreadingFactor::_5) }
// @verif props=C16 obligation=time_on_air_us.contract[SF6] label=proved-complete tier=quick unit=time_on_air_us
#[kani::proof_for_contract(BaseBandModulationParams::time_on_air_us)]
fn c16_toa_sf6() { toa_contract_for(SpreadingFactor::_6) }
// @verif props=C16 obligation=time_on_air_us.contract[SF7] label=proved-complete tier=quick unit=time_on_air_us
#[kani::proof_for_contract(BaseBandModulationParams::time_on_air_us)]
fn c16_toa_sf7() { toa_contract_for(SpreadingFactor::_7) }
// @verif props=C16 obligation=time_on_air_us.contract[SF8] label=proved-complete tier=quick unit=time_on_air_us
#[kani::proof_for_contract(BaseBandModulationParams::time_on_air_us)]
fn c16_toa_sf8() { toa_contract_for(SpreadingFactor::_8) }
// @verif props=C16 obligation=time_on_air_us.contract[SF9] label=proved-complete tier=quick unit=time_on_air_us
#[kani::proof_for_contract(BaseBandModulationParams::time_on_air_us)]
fn c16_toa_sf9() { toa_contract_for(SpreadingFactor::_9) }
// @verif props=C16 obligation=time_on_air_us.contract[SF10] label=proved-complete tier=quick unit=time_on_air_us
#[kani::proof_for_contract(BaseBandModulationParams::time_on_air_us)]
fn c16_toa_sf10() { toa_contract_for(SpreadingFactor::_10) }
// @verif props=C16 obligation=time_on_air_us.contract[SF11] label=proved-complete tier=quick unit=time_on_air_us
#[kani::proof_for_contract(BaseBandModulationParams::time_on_air_us)]
fn c16_toa_sf11() { toa_contract_for(SpreadingFactor::_11) }
// @verif props=C16 obligation=time_on_air_us.contract[SF12] label=proved-complete tier=quick unit=time_on_air_us
#[kani::proof_for_contract(BaseBandModulationParams::time_on_air_us)]
fn c16_toa_sf12() { toa_contract_for(SpreadingFactor::_12) }

/// monotone in the payload length (two calls of the real function, same parameters)
fn toa_monotone_for(sf: SpreadingFactor) {
    tape::init();
    let p = BaseBandModulationParams::new(sf, any_bw(), any_cr());
    let preamble: Option<u8> = tape::opt_u8();
    let explicit: bool = tape::boolean();
    let l1: u8 = tape::u8();
    let l2: u8 = tape::u8();
    kani::assume(l1 <= l2);
    assert!(p.time_on_air_us(preamble, explicit, l1) <= p.time_on_air_us(preamble, explicit, l2), "time_on_air_us monotone in len");
    kani::cover!(true, "verif-reached: end of harness");
}
// @verif props=C16 obligation=time_on_air_us.monotone[SF5] label=proved-complete tier=quick
#[kani::proof]
fn c16_toa_monotone_sf5() { toa_monotone_for(SpreadingFactor::_5) }
// @verif props=C16 obligation=time_on_air_us.monotone[SF6] label=proved-complete tier=quick
#[kani::proof]
fn c16_toa_monotone_sf6() { toa_monotone_for(SpreadingFactor::_6) }
// @verif props=C16 obligation=time_on_air_us.monotone[SF7] label=proved-complete tier=quick
#[kani::proof]
fn c16_toa_monotone_sf7() { toa_monotone_for(SpreadingFactor::_7) }
// @verif props=C16 obligation=time_on_air_us.monotone[SF8] label=proved-complete tier=quick
#[kani::proof]
fn c16_toa_monotone_sf8() { toa_monotone_for(SpreadingFactor::_8) }
// @verif props=C16 obligation=time_on_air_us.monotone[SF9] label=proved-complete tier=quick
#[kani::proof]
fn c16_toa_monotone_sf9() { toa_monotone_for(SpreadingFactor::_9) }
// @verif props=C16 obligation=time_on_air_us.monotone[SF10] label=proved-complete tier=quick
#[kani::proof]
fn c16_toa_monotone_sf10() { toa_monotone_for(SpreadingFactor::_10) }
// @verif props=C16 obligation=time_on_air_us.monotone[SF11] label=proved-complete tier=quick
#[kani::proof]
fn c16_toa_monotone_sf11() { toa_monotone_for(SpreadingFactor::_11) }
// @verif props=C16 obligation=time_on_air_us.monotone[SF12] label=proved-complete tier=quick
#[kani::proof]
fn c16_toa_monotone_sf12() { toa_monotone_for(SpreadingFactor::_12) }

// ---------------------------------------------------------------------------------------- C15
// @verif props=C15,C16 obligation=BaseBandModulationParams::new.ldro_and_tsym label=proved-complete tier=quick
#[kani::proof]
#[kani::unwind(11)]
fn c15_new_ldro_all_pairs() {
    tape::init();
    let mut s = 0;
    while s < SFS.len() {
        let mut b = 0;
        while b < BWS.len() {
            let p = BaseBandModulationParams::new(SFS[s], BWS[b], any_cr());
            assert!(p.ldro == spec_ldro(SFS[s], BWS[b]), "ldro == (2^SF/BW >= 16.38 ms)");
            assert!(p.t_sym_us as u64 == spec_tsym_us(SFS[s], BWS[b]), "t_sym_us is the truncated symbol time");
            b += 1;
        }
        s += 1;
    }
    kani::cover!(true, "verif-reached: end of harness");
}

// ---------------------------------------------------------------------------------------- C17 (symbol conversions)
// delay_in_symbols(ms) = floor(ms*1000 / t_sym) as u16 ; symbols_to_ms(n) = floor(t_sym*n/1000); no overflow
// for the ranges the LoRaWAN adapter uses (ms <= 1000+..., see lorawan_radio harness for the covering claim).
// @verif props=C17 obligation=delay_in_symbols.floor_no_overflow label=proved-complete tier=never
#[kani::proof]
#[kani::unwind(11)]
fn c17_delay_in_symbols() {
    tape::init();
    let si: usize = tape::below(8);
    let mut b = 0;
    while b < BWS.len() {
        let p = BaseBandModulationParams::new(SFS[si], BWS[b], CodingRate::_4_5);
        let ms: u32 = tape::u32();
        kani::assume(ms <= 4_000_000); // ms*1000 fits u32 up to 4_294_967
        let n = p.delay_in_symbols(ms);
        let t = spec_tsym_us(SFS[si], BWS[b]);
        let exact = (ms as u64 * 1000) / t;
        assert!(n as u64 == exact % 65536, "delay_in_symbols is floor(ms*1000/t_sym) truncated to u16");
        b += 1;
    }
    kani::cover!(true, "verif-reached: end of harness");
}
