// Contracts + harnesses for lora-phy/src/sx127x (C15 LDRO, C17 symbol timeout / status conversions, C18 payload read)
// @inject file=lora-phy/src/sx127x/mod.rs mod=verif_sx127x
// @job pkg=lora-phy zflags=function-contracts,stubbing
// @requires common_tape phy_common
use super::*;
use crate::verif_tape as tape;
use crate::verif_phy::*;

pub(crate) const SFS: [SpreadingFactor; 8] = [SpreadingFactor::_5, SpreadingFactor::_6, SpreadingFactor::_7, SpreadingFactor::_8, SpreadingFactor::_9, SpreadingFactor::_10, SpreadingFactor::_11, SpreadingFactor::_12];
pub(crate) const BWS: [Bandwidth; 10] = [Bandwidth::_7KHz, Bandwidth::_10KHz, Bandwidth::_15KHz, Bandwidth::_20KHz, Bandwidth::_31KHz, Bandwidth::_41KHz, Bandwidth::_62KHz, Bandwidth::_125KHz, Bandwidth::_250KHz, Bandwidth::_500KHz];
pub(crate) fn spec_ldro(sf: SpreadingFactor, bw: Bandwidth) -> bool { (1u64 << sf.factor()) * 100_000 >= 1638 * bw.hz() as u64 }

fn ldro_contract<C: Sx127xVariant>(r: &Sx127x<MockSpi, MockIv, C>) {
    let f = tape::u32();
    let mut s = 0;
    while s < 8 {
        let mut b = 0;
        while b < 10 {
            if let Ok(p) = r.create_modulation_params(SFS[s], BWS[b], CodingRate::_4_5, f) {
                assert!(p.low_data_rate_optimize == spec_ldro(SFS[s], BWS[b]) as u8, "C15 SX127x LDRO on exactly when the symbol time is >= 16.38 ms");
            }
            b += 1;
        }
        s += 1;
    }
    kani::cover!(true, "verif-reached: end");
}
// @verif props=C15 obligation=Sx127x<Sx1276>::create_modulation_params.ldro label=proved-complete tier=quick bound="all SF x BW the chip accepts (exhaustive)"
#[kani::proof]
#[kani::unwind(12)]
fn c15_sx1276_ldro() { tape::init(); ldro_contract(&Sx127x::new(MockSpi, MockIv, Config { chip: Sx1276, tcxo_used: false, tx_boost: false, rx_boost: false })) }
// @verif props=C15 obligation=Sx127x<Sx1272>::create_modulation_params.ldro label=proved-complete tier=quick bound="all SF x BW the chip accepts (exhaustive)"
#[kani::proof]
#[kani::unwind(12)]
fn c15_sx1272_ldro() { tape::init(); ldro_contract(&Sx127x::new(MockSpi, MockIv, Config { chip: Sx1272, tcxo_used: false, tx_boost: false, rx_boost: false })) }

// linearize_rssi: integer form of raw * 16 / 15 rounded to nearest
// @verif props=C17 obligation=sx127x::linearize_rssi.contract label=proved-complete tier=quick
#[kani::proof]
fn c17_sx127x_linearize_rssi() {
    tape::init();
    let raw = tape::u8();
    let v = linearize_rssi(raw) as i32;
    assert!((15 * v - 16 * raw as i32).abs() * 2 <= 15, "C17 linearised RSSI = raw * 16/15 rounded to nearest");
    kani::cover!(true, "verif-reached: end");
}

// symbol timeout: RegModemConfig2[1:0] | RegSymbTimeoutLsb = min(n, 1023), other bits of RegModemConfig2 preserved
// @verif props=C17 obligation=Sx127x::set_lora_symbol_num_timeout.contract label=proved-complete tier=quick bound="all 65536 symbol counts, any prior register content"
#[kani::proof]
#[kani::unwind(14)]
fn c17_sx127x_symbol_timeout() {
    tape::init();
    let mut r = Sx127x::new(MockSpi, MockIv, Config { chip: Sx1276, tcxo_used: false, tx_boost: false, rx_boost: false });
    let n = tape::u16();
    let res = r.set_lora_symbol_num_timeout(n);
    let g = unsafe { &*(&raw const SPI) };
    assert!(res.is_ok() && g.n == 3, "read-modify-write of RegModemConfig2, then RegSymbTimeoutLsb");
    // writes: [0] read address of RegModemConfig2 (0x1E), [1] write 0x9E value, [2] write 0x9F value
    assert!(g.w[0][0] == 0x1E && g.w[1][0] == 0x9E && g.w[2][0] == 0x9F, "register addresses");
    let decoded = (((g.w[1][1] & 0x03) as u32) << 8) | g.w[2][1] as u32;
    assert!(decoded == core::cmp::min(n as u32, 1023), "C17 programmed symbol timeout == min(requested, 1023): never shorter than requested up to the chip maximum");
    kani::cover!(n > 1023, "verif-reached: clamped");
}

// ------------------------------------------------------------------------------------------------ C18
// @verif props=C18,C04 obligation=Sx127x::get_rx_payload.contract label=proved-complete tier=quick bound="caller buffer length 0..40 symbolic, all register values the chip can report, explicit and implicit header"
#[kani::proof]
#[kani::unwind(42)]
fn c18_sx127x_get_rx_payload() {
    tape::init();
    let mut r = Sx127x::new(MockSpi, MockIv, Config { chip: Sx1276, tcxo_used: false, tx_boost: false, rx_boost: false });
    let cap = tape::below(41);
    let mut buf = [0xA5u8; 40];
    let pp = PacketParams { preamble_length: 8, implicit_header: tape::boolean(), payload_length: tape::u8(), crc_on: true, iq_inverted: true };
    let res = r.get_rx_payload(&pp, &mut buf[..cap]);
    match res {
        Ok(n) => {
            assert!(n as usize <= cap, "C18 returned length never exceeds the caller's buffer");
            let mut i = 0;
            while i < 40 { if i >= n as usize { assert!(buf[i] == 0xA5, "C18 bytes beyond the packet are left untouched"); } i += 1; }
        }
        Err(_) => { let mut i = 0; while i < 40 { assert!(buf[i] == 0xA5, "C18 on error the caller's buffer is untouched"); i += 1; } }
    }
    kani::cover!(res.is_err(), "verif-reached: refused");
    kani::cover!(res.is_ok(), "verif-reached: ok");
}

// packet status / RSSI conversions: total for every register value, and equal to the datasheet conversion of what the chip
// answered (read back from the SPI contract-stub's read log).  SX1276/77/78/79 datasheet 5.5.5, SX1272/73 datasheet 6.4 / 5.5.5:
//   SNR[dB]   = PacketSnr (two's complement) / 4
//   RSSI[dBm] = offset + PacketRssi                     (SNR >= 0; the SX1276 text scales the raw value by 16/15)
//             = offset + PacketRssi + PacketSnr * 0.25  (SNR < 0)
//   offset    = -157 (SX1276 HF port, bands above 779 MHz), -164 (SX1276 LF port, up to 525 MHz), -139 (SX1272)
// Semtech's documents and reference drivers disagree on where the 16/15 slope applies, so BOTH readings of the raw RSSI term
// (raw, or raw * 16/15) are accepted; the tolerance is 1 dB plus the rounding of the SNR term (each term is rounded once: < 1.5 dB).
fn status_contract<C: Sx127xVariant>(mut r: Sx127x<MockSpi, MockIv, C>, sx1276: bool) {
    let a = r.get_rx_packet_status();
    let g = unsafe { &*(&raw const SPI) };
    assert!(a.is_ok(), "total: every register value converts");
    let st = a.unwrap();
    // the chip's answers, by register address (whatever the order or burst shape of the reads): RegPktSnrValue 0x19,
    // RegPktRssiValue 0x1A, and -- SX1276 only -- RegFrfMsb/Mid/Lsb 0x06..0x08 for the port
    let (a_snr, a_rssi) = (reg_answer(0x19), reg_answer(0x1A));
    assert!(a_snr.is_some() && a_rssi.is_some(), "packet SNR and packet RSSI registers are the ones read");
    let (raw_snr, raw_rssi) = (a_snr.unwrap() as i8 as i32, a_rssi.unwrap() as i32);
    let (snr, rssi) = (st.snr as i32, st.rssi as i32);
    assert!(st.snr >= -32 && st.snr <= 31, "C17 SNR = signed raw / 4");
    assert!((4 * snr - raw_snr).abs() <= 4, "C17 reported SNR agrees with the signed RegPktSnrValue / 4 to within rounding (1 dB)");
    let frf = ((reg_answer(0x06).unwrap_or(0) as u64) << 16) | ((reg_answer(0x07).unwrap_or(0) as u64) << 8) | reg_answer(0x08).unwrap_or(0) as u64;
    let f_hz = (frf * 32_000_000) >> 19;
    let snr_term = if raw_snr < 0 { 15 * raw_snr } else { 0 };        // x60 scale: 60 * raw_snr / 4
    let mut ok = false;
    let offsets: [i32; 2] = if !sx1276 { [-139, -139] } else if f_hz >= 779_000_000 { [-157, -157] } else if f_hz <= 525_000_000 { [-164, -164] } else { [-157, -164] };
    let mut k = 0;
    while k < 2 {
        let plain = 60 * offsets[k] + 60 * raw_rssi + snr_term;
        let scaled = 60 * offsets[k] + 64 * raw_rssi + snr_term;
        if (60 * rssi - plain).abs() < 90 || (60 * rssi - scaled).abs() < 90 { ok = true; }
        k += 1;
    }
    assert!(ok, "C17 reported packet RSSI agrees with the datasheet conversion of RegPktRssiValue / RegPktSnrValue (port offset by programmed frequency) to within rounding");
    kani::cover!(raw_snr < 0, "verif-reached: negative SNR");
    kani::cover!(raw_snr >= 0 && raw_rssi > 100, "verif-reached: strong signal");
}
// @verif props=C17,C18,C04 obligation=Sx127x<Sx1276>::get_rx_packet_status.contract label=proved-complete tier=quick bound="all 2^40 register value combinations (SNR, RSSI, Frf)"
#[kani::proof]
#[kani::unwind(26)]
fn c17_sx127x_packet_status_total() { tape::init(); status_contract(Sx127x::new(MockSpi, MockIv, Config { chip: Sx1276, tcxo_used: false, tx_boost: false, rx_boost: false }), true) }
// @verif props=C17,C18,C04 obligation=Sx127x<Sx1272>::get_rx_packet_status.contract label=proved-complete tier=quick bound="all 2^16 register value combinations"
#[kani::proof]
#[kani::unwind(26)]
fn c17_sx1272_packet_status() { tape::init(); status_contract(Sx127x::new(MockSpi, MockIv, Config { chip: Sx1272, tcxo_used: false, tx_boost: false, rx_boost: false }), false) }

// instantaneous RSSI: RSSI[dBm] = offset + RegRssiValue (0x1B)
fn rssi_contract<C: Sx127xVariant>(mut r: Sx127x<MockSpi, MockIv, C>, sx1276: bool) {
    let b = r.get_rssi();
    let g = unsafe { &*(&raw const SPI) };
    assert!(b.is_ok() && reg_answer(0x1B).is_some(), "total; RegRssiValue is the register read");
    let _ = g;
    let v = b.unwrap() as i32 - reg_answer(0x1B).unwrap() as i32;
    let frf = ((reg_answer(0x06).unwrap_or(0) as u64) << 16) | ((reg_answer(0x07).unwrap_or(0) as u64) << 8) | reg_answer(0x08).unwrap_or(0) as u64;
    let f_hz = (frf * 32_000_000) >> 19;
    if !sx1276 { assert!(v == -139, "C17 SX1272 RSSI = -139 + RegRssiValue"); }
    else { assert!((v == -157 && f_hz > 525_000_000) || (v == -164 && f_hz < 779_000_000), "C17 SX1276 RSSI = -157 (HF port) / -164 (LF port) + RegRssiValue, port by the programmed frequency"); }
    kani::cover!(true, "verif-reached: end");
}
// @verif props=C17 obligation=Sx127x<Sx1276>::get_rssi.contract label=proved-complete tier=quick bound="all register values"
#[kani::proof]
#[kani::unwind(26)]
fn c17_sx1276_get_rssi() { tape::init(); rssi_contract(Sx127x::new(MockSpi, MockIv, Config { chip: Sx1276, tcxo_used: false, tx_boost: false, rx_boost: false }), true) }
// @verif props=C17 obligation=Sx127x<Sx1272>::get_rssi.contract label=proved-complete tier=quick bound="all register values"
#[kani::proof]
#[kani::unwind(26)]
fn c17_sx1272_get_rssi() { tape::init(); rssi_contract(Sx127x::new(MockSpi, MockIv, Config { chip: Sx1272, tcxo_used: false, tx_boost: false, rx_boost: false }), false) }

// frequency: RegFrfMsb/Mid/Lsb (0x06..0x08) carry the 24-bit synthesiser word, MSB first; the word is freq_to_pll_step(f), whose
// contract (0 <= f - word * 32e6 / 2^19 < 61.04 Hz) is the Verus unit `freq_to_pll_step` (group phyarith, unbounded)
// The conversion is replaced by its contract-stub here (CBMC needs 339 s for the 64-bit division): called with the requested
// frequency, and whatever word it returns must be what reaches the three registers.
pub(crate) static mut CONV_CALLS: u32 = 0;
pub(crate) static mut CONV_ARG: u32 = 0;
pub(crate) static mut CONV_RET: u32 = 0;
fn stub_freq_to_pll_step(freq_in_hz: u32) -> u32 { unsafe { CONV_CALLS += 1; CONV_ARG = freq_in_hz; CONV_RET = u32::from_le_bytes(tape::stub_arr::<4>()); CONV_RET } }
// @verif props=C17 obligation=Sx127x::set_channel.wire label=proved-complete tier=quick bound="every u32 frequency; the PLL-step conversion is contract-stubbed (its contract: Verus unit freq_to_pll_step)"
#[kani::proof]
#[kani::unwind(26)]
#[kani::stub(freq_to_pll_step, stub_freq_to_pll_step)]
fn c17_sx127x_set_channel_wire() {
    tape::init();
    let mut r = Sx127x::new(MockSpi, MockIv, Config { chip: Sx1276, tcxo_used: false, tx_boost: false, rx_boost: false });
    let f = tape::u32();
    let res = r.set_channel(f);
    let g = unsafe { &*(&raw const SPI) };
    assert!(unsafe { CONV_CALLS == 1 && CONV_ARG == f }, "C17 the synthesiser word is computed from the requested frequency");
    let word = unsafe { CONV_RET };
    if res.is_ok() {
        // the LAST value written to each of the three registers
        let mut v: [Option<u8>; 3] = [None; 3];
        let mut k = 0;
        while k < LOG_LEN { if k < g.n && g.wl[k] == 2 { let a = g.w[k][0]; if a == 0x86 { v[0] = Some(g.w[k][1]); } if a == 0x87 { v[1] = Some(g.w[k][1]); } if a == 0x88 { v[2] = Some(g.w[k][1]); } } k += 1; }
        assert!(v[0].is_some() && v[1].is_some() && v[2].is_some(), "RegFrfMsb, RegFrfMid and RegFrfLsb are all written");
        let wire = ((v[0].unwrap() as u32) << 16) | ((v[1].unwrap() as u32) << 8) | v[2].unwrap() as u32;
        assert!(wire == word & 0x00ff_ffff, "C17 the synthesiser word in RegFrf (MSB first) is the PLL-step conversion of the requested frequency");
    }
    kani::cover!(res.is_ok() && f > 868_000_000 && f < 870_000_000, "verif-reached: programmed");
}

// the LDRO bit that reaches the chip is the one decided by create_modulation_params, whatever the registers held before
fn wire_ldro_contract<C: Sx127xVariant>(mut r: Sx127x<MockSpi, MockIv, C>, reg_write_addr: u8, bit: u8) {
    let p = ModulationParams { spreading_factor: SFS[2 + tape::below(6)], bandwidth: BWS[tape::below(10)], coding_rate: CodingRate::_4_5, low_data_rate_optimize: tape::u8() & 1, frequency_in_hz: tape::u32() };
    let res = r.set_modulation_params(&p);
    let g = unsafe { &*(&raw const SPI) };
    if res.is_ok() {
        // the LAST write to the register that carries the LDRO bit
        let mut val: Option<u8> = None;
        let mut k = 0;
        while k < LOG_LEN { if k < g.n && g.wl[k] == 2 && g.w[k][0] == reg_write_addr { val = Some(g.w[k][1]); } k += 1; }
        assert!(val.is_some(), "C15 the register carrying LowDataRateOptimize is written");
        assert!(((val.unwrap() >> bit) & 1) == p.low_data_rate_optimize, "C15 the LDRO bit programmed into the chip equals the decided value, on or OFF, regardless of the previous register content");
    }
    kani::cover!(res.is_ok() && p.low_data_rate_optimize == 0, "verif-reached: programmed off");
    kani::cover!(res.is_ok() && p.low_data_rate_optimize == 1, "verif-reached: programmed on");
}
// @verif props=C15 obligation=Sx1276::set_modulation_params.wire_ldro label=proved-complete tier=quick bound="any prior register contents (arbitrary SPI read values), SF7..12 x all bandwidths"
#[kani::proof]
#[kani::unwind(26)]
fn c15_sx1276_wire_ldro() { tape::init(); wire_ldro_contract(Sx127x::new(MockSpi, MockIv, Config { chip: Sx1276, tcxo_used: false, tx_boost: false, rx_boost: false }), 0x80 | 0x26, 3) }
// @verif props=C15 obligation=Sx1272::set_modulation_params.wire_ldro label=proved-complete tier=quick bound="any prior register contents, SF7..12 x all bandwidths"
#[kani::proof]
#[kani::unwind(26)]
fn c15_sx1272_wire_ldro() { tape::init(); wire_ldro_contract(Sx127x::new(MockSpi, MockIv, Config { chip: Sx1272, tcxo_used: false, tx_boost: false, rx_boost: false }), 0x80 | 0x1d, 0) }

// ---------------------------------------------------------------------------------------- C17: PA settings decode
// Datasheet decode (SX1276/7/8/9 rev 7 5.4.2-5.4.3, SX1272 5.4.2-5.4.3), in tenths of a dB:
//   SX1276  RegPaConfig 0x09: [7] PaSelect [6:4] MaxPower [3:0] OutputPower
//           RFO:      Pout = Pmax - (15 - OutputPower),  Pmax = 10.8 + 0.6 MaxPower
//           PA_BOOST: Pout = 17 - (15 - OutputPower)   (+3 dB when RegPaDac 0x4d == 0x87)
//   SX1272  RegPaConfig 0x09: [7] PaSelect [3:0] OutputPower
//           RFO: Pout = -1 + OutputPower;  PA_BOOST: Pout = 2 + OutputPower (+3 dB when RegPaDac 0x5a == 0x87)
fn last_write(reg: u8) -> Option<u8> {
    let g = unsafe { &*(&raw const SPI) };
    let mut val: Option<u8> = None;
    let mut k = 0;
    while k < LOG_LEN { if k < g.n && g.wl[k] == 2 && g.w[k][0] == (0x80 | reg) { val = Some(g.w[k][1]); } k += 1; }
    val
}
fn tx_power_contract<C: Sx127xVariant>(mut r: Sx127x<MockSpi, MockIv, C>, sx1272: bool, boost: bool) {
    let req: i32 = tape::i32();
    let res = r.set_tx_power_and_ramp_time(req, None, tape::boolean());
    if res.is_ok() {
        let pa_config = last_write(0x09);
        let pa_dac = last_write(if sx1272 { 0x5a } else { 0x4d });
        assert!(pa_config.is_some() && pa_dac.is_some(), "C17 RegPaConfig and RegPaDac are programmed");
        let (cfg, dac) = (pa_config.unwrap(), pa_dac.unwrap());
        assert!(dac == 0x84 || dac == 0x87, "C17 RegPaDac holds one of the two documented values");
        assert!(((cfg >> 7) == 1) == boost, "C17 PaSelect follows the board's PA path");
        let op = (cfg & 0x0f) as i32;
        let maxp = ((cfg >> 4) & 7) as i32;
        let plus3 = if dac == 0x87 { 30 } else { 0 };
        let (lo, hi, decoded_x10) = if sx1272 {
            assert!(maxp == 0, "C17 SX1272 RegPaConfig[6:4] unused = 0");
            if boost { (2, 20, (2 + op) * 10 + plus3) } else { (-1, 14, (-1 + op) * 10) }
        } else if boost { (2, 20, (2 + op) * 10 + plus3) } else { (-4, 14, 108 + 6 * maxp - (15 - op) * 10) };
        if !boost { assert!(dac == 0x84, "C17 the +20 dBm option is only legal on PA_BOOST"); }
        let t = if req < lo { lo } else if req > hi { hi } else { req };
        assert!(decoded_x10 <= t * 10, "C17 decoded output power never above the request clamped into the chip's range");
        assert!(t * 10 - decoded_x10 < 10, "C17 decoded output power within 1 dB of the clamped request");
    }
    kani::cover!(res.is_ok() && req > 17, "verif-reached: high request");
    kani::cover!(res.is_ok() && req < -4, "verif-reached: low request");
    kani::cover!(res.is_ok() && req >= 0 && req <= 14, "verif-reached: mid request");
}
// @verif props=C17 obligation=Sx1276::set_tx_power.decode[PA_BOOST] label=proved-complete tier=quick bound="every i32 request"
#[kani::proof]
#[kani::unwind(26)]
fn c17_sx1276_tx_power_boost() { tape::init(); tx_power_contract(Sx127x::new(MockSpi, MockIv, Config { chip: Sx1276, tcxo_used: false, tx_boost: true, rx_boost: false }), false, true) }
// @verif props=C17 obligation=Sx1276::set_tx_power.decode[RFO] label=proved-complete tier=quick bound="every i32 request"
#[kani::proof]
#[kani::unwind(26)]
fn c17_sx1276_tx_power_rfo() { tape::init(); tx_power_contract(Sx127x::new(MockSpi, MockIv, Config { chip: Sx1276, tcxo_used: false, tx_boost: false, rx_boost: false }), false, false) }
// @verif props=C17 obligation=Sx1272::set_tx_power.decode[PA_BOOST] label=proved-complete tier=quick bound="every i32 request"
#[kani::proof]
#[kani::unwind(26)]
fn c17_sx1272_tx_power_boost() { tape::init(); tx_power_contract(Sx127x::new(MockSpi, MockIv, Config { chip: Sx1272, tcxo_used: false, tx_boost: true, rx_boost: false }), true, true) }
// @verif props=C17 obligation=Sx1272::set_tx_power.decode[RFO] label=proved-complete tier=quick bound="every i32 request"
#[kani::proof]
#[kani::unwind(26)]
fn c17_sx1272_tx_power_rfo() { tape::init(); tx_power_contract(Sx127x::new(MockSpi, MockIv, Config { chip: Sx1272, tcxo_used: false, tx_boost: false, rx_boost: false }), true, false) }

// the LDRO bit programmed by set_modulation_params must still be in the chip after the rest of the TX/RX programme
// (packet parameters, channel, power, symbol time-out are all read-modify-write or plain writes of neighbouring
// registers).  Register-file contract of phy_common (A-chip) with arbitrary prior content.
fn ldro_survives_programme<C: Sx127xVariant>(mut r: Sx127x<MockSpi, MockIv, C>, reg: usize, bit: u8) {
    unsafe {
        REGS.on = true;
        let other = tape::stub_u8();
        let mut i = 0;
        while i < 128 { REGS.r[i] = other; i += 1; }
        // the registers the programme reads get independent arbitrary prior contents
        REGS.r[0x1d] = tape::stub_u8(); REGS.r[0x1e] = tape::stub_u8(); REGS.r[0x26] = tape::stub_u8();
        REGS.r[0x31] = tape::stub_u8(); REGS.r[0x37] = tape::stub_u8(); REGS.r[0x09] = tape::stub_u8();
    }
    let p = ModulationParams { spreading_factor: SFS[2 + tape::below(6)], bandwidth: BWS[tape::below(10)], coding_rate: [CodingRate::_4_5, CodingRate::_4_6, CodingRate::_4_7, CodingRate::_4_8][tape::below(4)], low_data_rate_optimize: tape::u8() & 1, frequency_in_hz: tape::u32() };
    let pkt = PacketParams { preamble_length: tape::u16(), implicit_header: tape::boolean(), payload_length: tape::u8(), crc_on: tape::boolean(), iq_inverted: tape::boolean() };
    let ok = r.set_modulation_params(&p).is_ok()
        && r.set_tx_power_and_ramp_time(tape::i8() as i32, Some(&p), tape::boolean()).is_ok()
        && r.set_packet_params(&pkt).is_ok()
        && r.set_channel(p.frequency_in_hz).is_ok()
        && r.set_lora_symbol_num_timeout(tape::u16()).is_ok();
    if ok {
        let v = unsafe { REGS.r[reg] };
        assert!(((v >> bit) & 1) == p.low_data_rate_optimize, "C15 the LDRO bit in the chip after the whole TX/RX programme equals the decided value (no later register write disturbs it)");
    }
    kani::cover!(ok && p.low_data_rate_optimize == 1, "verif-reached: programme done, LDRO on");
    kani::cover!(ok && p.low_data_rate_optimize == 0, "verif-reached: programme done, LDRO off");
}
// @verif props=C15 obligation=Sx1276::tx_rx_programme.ldro_survives label=proved-complete tier=quick bound="arbitrary prior register file (registers read by the programme independent, all others one shared arbitrary byte), SF7..12 x all BW x all packet parameters"
#[kani::proof]
#[kani::unwind(130)]
fn c15_sx1276_ldro_survives_programme() { tape::init(); ldro_survives_programme(Sx127x::new(MockSpi, MockIv, Config { chip: Sx1276, tcxo_used: false, tx_boost: false, rx_boost: false }), 0x26, 3) }
// @verif props=C15 obligation=Sx1272::tx_rx_programme.ldro_survives label=proved-complete tier=quick bound="arbitrary prior register file, SF7..12 x all BW x all packet parameters"
#[kani::proof]
#[kani::unwind(130)]
fn c15_sx1272_ldro_survives_programme() { tape::init(); ldro_survives_programme(Sx127x::new(MockSpi, MockIv, Config { chip: Sx1272, tcxo_used: false, tx_boost: false, rx_boost: false }), 0x1d, 0) }

// ------------------------------------------------------------------------------------------------ C14: A-chip refinement (SX127x)
// The abstract chip of the C14 harnesses ties mode changes to RadioKind methods; here that tie is discharged for the real
// SX1276/SX1272 driver against the datasheet (SX1276 DS 6.4 / SX1272 DS 6.4, RegOpMode 0x01: bit 7 LongRangeMode, bits 2..0
// Mode: 0 SLEEP, 1 STDBY, 3 TX, 5 RXCONTINUOUS, 6 RXSINGLE, 7 CAD).  A write is address | 0x80.  Assumed: the silicon.
fn opmode_writes() -> (usize, u8, bool) {
    // (number of RegOpMode writes, value of the last one, last write of the whole log is a RegOpMode write)
    let g = unsafe { &*(&raw const SPI) };
    let mut i = 0; let mut cnt = 0; let mut last = 0u8; let mut last_is = false;
    while i < LOG_LEN { if i < g.n { if g.w[i][0] == 0x81 && g.wl[i] == 2 { cnt += 1; last = g.w[i][1]; last_is = true; } else { last_is = false; } } i += 1; }
    (cnt, last, last_is && g.n < LOG_LEN)
}
fn chip127(k: usize) -> Sx127x<MockSpi, MockIv, Sx1276> { Sx127x::new(MockSpi, MockIv, Config { chip: Sx1276, tcxo_used: false, tx_boost: k & 1 == 1, rx_boost: k & 2 == 2 }) }
// @verif props=C14 obligation=Sx127x::set_standby/set_sleep.chip_mode label=proved-complete tier=quick
#[kani::proof]
#[kani::unwind(26)]
fn c14_sx127x_standby_sleep() {
    tape::init();
    let mut r = chip127(tape::below(4));
    let sleep = tape::boolean();
    let res = if sleep { r.set_sleep(tape::boolean(), &mut MockDelay) } else { r.set_standby() };
    let (cnt, last, last_is) = opmode_writes();
    if res.is_ok() { assert!(cnt == 1 && last_is && last == (if sleep { 0x80 } else { 0x81 }), "C14 set_standby / set_sleep write RegOpMode = LoRa | STDBY / LoRa | SLEEP, once, and nothing after it"); }
    kani::cover!(res.is_ok() && sleep, "verif-reached: sleep");
    kani::cover!(res.is_ok() && !sleep, "verif-reached: standby");
}
// @verif props=C14 obligation=Sx127x::do_tx/do_rx/do_cad.chip_mode label=proved-complete tier=quick bound="tx; rx single (any symbol count), continuous, duty cycle (refused); cad"
#[kani::proof]
#[kani::unwind(26)]
fn c14_sx127x_start_ops() {
    tape::init();
    let mut r = chip127(tape::below(4));
    let k = tape::below(5);
    let p = ModulationParams { spreading_factor: SFS[tape::below(8)], bandwidth: BWS[tape::below(10)], coding_rate: CodingRate::_4_5, low_data_rate_optimize: 0, frequency_in_hz: tape::u32() };
    let res = match k { 0 => r.do_tx(), 1 => r.do_rx(RxMode::Single(tape::u16())), 2 => r.do_rx(RxMode::Continuous),
        3 => r.do_rx(RxMode::DutyCycle(DutyCycleParams { rx_time: tape::u32(), sleep_time: tape::u32() })), _ => r.do_cad(&p) };
    let (cnt, last, last_is) = opmode_writes();
    let g = unsafe { &*(&raw const SPI) };
    if k == 3 { assert!(res.is_err() && g.n == 0, "C14 duty-cycle reception is refused by the SX127x driver without commanding the chip"); }
    else if res.is_ok() {
        let want = [0x83u8, 0x86, 0x85, 0, 0x87][k];
        assert!(cnt == 1 && last_is && last == want, "C14 do_tx / do_rx / do_cad end with the one RegOpMode write that starts the operation (LoRa | TX, RXSINGLE, RXCONTINUOUS, CAD)");
    }
    kani::cover!(res.is_ok() && k == 1, "verif-reached: rx single started");
    kani::cover!(res.is_ok() && k == 4, "verif-reached: cad started");
    kani::cover!(k == 3, "verif-reached: duty cycle refused");
}

// single reception: the symbol-count timeout in the chip when RXSINGLE starts covers the one asked for (RegModemConfig2[1:0] |
// RegSymbTimeoutLsb, 10 bits); register-file contract on, so that the read-modify-write composes
// @verif props=C17,C10 obligation=Sx127x::do_rx.symbol_timeout_passed label=proved-complete tier=quick bound="single (any symbol count), continuous; arbitrary prior register file (A-chip register-file contract)"
#[kani::proof]
#[kani::unwind(130)]
fn c17_sx127x_do_rx_symbol_timeout() {
    tape::init();
    unsafe { REGS.on = true; let v = tape::u8(); let mut i = 0; while i < 128 { REGS.r[i] = v; i += 1; } REGS.r[0x1E] = tape::u8(); REGS.r[0x1F] = tape::u8(); }
    let mut r = Sx127x::new(MockSpi, MockIv, Config { chip: Sx1276, tcxo_used: false, tx_boost: false, rx_boost: false });
    let single = tape::boolean();
    let n = tape::u16();
    let cfg2_before = unsafe { REGS.r[0x1E] };
    let res = r.do_rx(if single { RxMode::Single(n) } else { RxMode::Continuous });
    if res.is_ok() {
        let regs = unsafe { &*(&raw const REGS) };
        let programmed = (((regs.r[0x1E] & 0x03) as u32) << 8) | regs.r[0x1F] as u32;
        assert!(regs.r[0x1E] & 0xfc == cfg2_before & 0xfc, "the other fields of RegModemConfig2 (SF, CRC) are preserved");
        if single {
            assert!(programmed >= core::cmp::min(n as u32, 1023), "C17 the symbol timeout in force for a single reception is never shorter than requested, up to the chip maximum (1023)");
            assert!(regs.r[0x01] & 0x07 == 0x06, "RXSINGLE commanded");
        } else {
            assert!(regs.r[0x01] & 0x07 == 0x05, "RXCONTINUOUS commanded");
        }
    }
    kani::cover!(res.is_ok() && single && n > 100, "verif-reached: single");
    kani::cover!(res.is_ok() && !single, "verif-reached: continuous");
}

// ------------------------------------------------------------------------------------------------ C14/C17: nothing survives a reset
// History obligation on the REAL driver (the C14 harnesses of phy_lora.rs run LoRa against the abstract chip and assume
// that RadioKind::set_channel programmes the chip): channel f0, then optionally a hardware reset (LoRa::init / recovery), then
// channel f.  Register-file contract with the reset model of phy_common: afterwards the chip's RegFrf holds the word of f --
// also when f == f0, where a driver that remembers "already programmed" across the reset would leave the chip on its 434 MHz
// power-on frequency.  The PLL conversion is an uninterpreted function (same argument, same word).
fn stub_freq_to_pll_step_uf(freq_in_hz: u32) -> u32 { uf_apply(freq_in_hz) & 0x00ff_ffff }
// @verif props=C14,C17 obligation=Sx127x::set_channel.history[channel; reset?; channel] label=proved-complete tier=quick bound="any two frequencies (equal or not), with and without a hardware reset in between, arbitrary prior register file"
#[kani::proof]
#[kani::unwind(130)]
#[kani::stub(freq_to_pll_step, stub_freq_to_pll_step_uf)]
fn c14_sx127x_channel_after_reset() {
    tape::init();
    unsafe { REGS.on = true; let v = tape::u8(); let mut i = 0; while i < 128 { REGS.r[i] = v; i += 1; } REGS.r[0x06] = tape::u8(); REGS.r[0x07] = tape::u8(); REGS.r[0x08] = tape::u8(); }
    let mut r = Sx127x::new(MockSpi, MockIv, Config { chip: Sx1276, tcxo_used: false, tx_boost: false, rx_boost: false });
    let (f0, f) = (tape::u32(), tape::u32());
    let first = r.set_channel(f0);
    let with_reset = tape::boolean();
    if with_reset { let _ = r.reset(&mut MockDelay); }
    let res = r.set_channel(f);
    if first.is_ok() && res.is_ok() {
        let regs = unsafe { &*(&raw const REGS) };
        let in_chip = ((regs.r[0x06] as u32) << 16) | ((regs.r[0x07] as u32) << 8) | regs.r[0x08] as u32;
        assert!(in_chip == uf_apply(f) & 0x00ff_ffff, "C14/C17 after set_channel(f) the chip's RegFrf holds the word of f -- whatever was programmed before, and also right after a reset");
    }
    kani::cover!(first.is_ok() && res.is_ok() && with_reset && f == f0, "verif-reached: same channel again after a reset");
    kani::cover!(first.is_ok() && res.is_ok() && !with_reset && f != f0, "verif-reached: channel change");
}
