// Shared mocks for lora-phy harnesses: the user-supplied SPI device / interface variant / delay as contract-stubs
// (A-radio / A-chip: they return in finite time and respect buffer lengths; every call may fail).
//
// Y1 (de-async): the listed files are compiled with `async`/`.await` deleted and the async embedded-hal traits
// replaced by their blocking twins of the same shape; what this drops: suspension points (cancellation, select).
// The crate's own (async) unit tests are compiled out under cfg(kani) so that the native replay builds.
// @inject file=lora-phy/src/lib.rs mod=verif_phy
// @job pkg=lora-phy zflags=function-contracts,stubbing
// @requires common_tape
// @deasync lora-phy/src/lib.rs lora-phy/src/mod_traits.rs lora-phy/src/interface.rs lora-phy/src/sx126x/mod.rs lora-phy/src/sx127x/mod.rs lora-phy/src/sx127x/sx1272.rs lora-phy/src/sx127x/sx1276.rs lora-phy/src/sx127x/radio_kind_params.rs
// @subst lora-phy/src/interface.rs "embedded_hal_async::" => "embedded_hal::"
// @subst lora-phy/src/mod_traits.rs "embedded_hal_async::" => "embedded_hal::"
// @subst lora-phy/src/lib.rs "embedded_hal_async::" => "embedded_hal::"
// @subst lora-phy/src/sx126x/mod.rs "embedded_hal_async::" => "embedded_hal::"
// @subst lora-phy/src/sx127x/mod.rs "embedded_hal_async::" => "embedded_hal::"
// @subst lora-phy/src/sx127x/sx1272.rs "embedded_hal_async::" => "embedded_hal::"
// @subst lora-phy/src/sx127x/sx1276.rs "embedded_hal_async::" => "embedded_hal::"
// @subst lora-phy/src/sx127x/radio_kind_params.rs "embedded_hal_async::" => "embedded_hal::"
// @subst lora-phy/src/lib.rs "#[cfg(test)]" => "#[cfg(all(test, not(kani)))]"
// @subst lora-phy/src/sx126x/mod.rs "#[cfg(test)]" => "#[cfg(all(test, not(kani)))]"
// @subst lora-phy/src/sx127x/mod.rs "#[cfg(test)]" => "#[cfg(all(test, not(kani)))]"
// @subst lora-phy/src/mod_params.rs "#[cfg(test)]" => "#[cfg(all(test, not(kani)))]"
// @subst lora-phy/src/lib.rs "pub mod iv;" => "#[cfg(not(kani))] pub mod iv;"
// @subst lora-phy/src/lib.rs "pub mod lr1110;" => "#[cfg(not(kani))] pub mod lr1110;"
// @subst lora-phy/src/lib.rs "pub(crate) mod lr1110_interface;" => "#[cfg(not(kani))] pub(crate) mod lr1110_interface;"
#![allow(dead_code, static_mut_refs)]
use crate::verif_tape as tape;
use crate::mod_params::RadioError;
use crate::mod_traits::InterfaceVariant;
use embedded_hal::spi::{ErrorType, Operation, SpiDevice};

pub(crate) const LOG_LEN: usize = 24;
/// ghost log of the SPI bus: the bytes written by the driver (first LOG_LEN write operations, first 12 bytes each)
pub(crate) const RD_LEN: usize = 12;
/// `rd`/`rdn`: the first RD_LEN bytes the chip answered (all Read operations, in order) -- what the status / register
/// conversions (C17) are judged against
pub(crate) struct SpiLog { pub n: usize, pub w: [[u8; 12]; LOG_LEN], pub wl: [usize; LOG_LEN], pub reads: usize, pub fail_at: usize, pub ops: usize, pub rd: [u8; RD_LEN], pub rdn: usize, pub rd_at: [usize; LOG_LEN] }
pub(crate) static mut SPI: SpiLog = SpiLog { n: 0, w: [[0; 12]; LOG_LEN], wl: [0; LOG_LEN], reads: 0, fail_at: usize::MAX, ops: 0, rd: [0; RD_LEN], rdn: 0, rd_at: [0; LOG_LEN] };

/// optional SX127x register-file contract (A-chip: a configuration register holds the last value written to it and
/// reads return it).  Off by default: reads are then arbitrary bytes.  Harnesses that need read-modify-write sequences
/// to compose (C15: the LDRO bit must survive every later register write) switch it on with arbitrary initial content.
pub(crate) struct RegFile { pub on: bool, pub r: [u8; 128], pub addr: u8 }
pub(crate) static mut REGS: RegFile = RegFile { on: false, r: [0; 128], addr: 0 };

/// SX127x: the byte the chip answered when register `addr` was read (single or burst read; the last read wins), from the logs
pub(crate) fn reg_answer(addr: u8) -> Option<u8> {
    let g = unsafe { &*(&raw const SPI) };
    let mut v = None;
    let mut k = 0;
    while k < LOG_LEN {
        if k < g.n && g.w[k][0] & 0x80 == 0 {
            let end = if k + 1 < g.n { g.rd_at[k + 1] } else { g.rdn };
            let a0 = g.w[k][0];
            if addr >= a0 && ((addr - a0) as usize) < end - g.rd_at[k] && g.rd_at[k] + ((addr - a0) as usize) < RD_LEN { v = Some(g.rd[g.rd_at[k] + (addr - a0) as usize]); }
        }
        k += 1;
    }
    v
}
pub(crate) struct MockSpi;
#[derive(Debug)]
pub(crate) struct MockErr;
impl embedded_hal::spi::Error for MockErr { fn kind(&self) -> embedded_hal::spi::ErrorKind { embedded_hal::spi::ErrorKind::Other } }
impl ErrorType for MockSpi { type Error = MockErr; }
impl SpiDevice<u8> for MockSpi {
    fn transaction(&mut self, operations: &mut [Operation<'_, u8>]) -> Result<(), MockErr> {
        unsafe {
            SPI.ops += 1;
            if SPI.ops - 1 == SPI.fail_at { return Err(MockErr); }
            let mut k = 0;
            while k < operations.len() {
                match &mut operations[k] {
                    Operation::Write(b) => {
                        if SPI.n < LOG_LEN {
                            let mut i = 0;
                            while i < 12 { if i < b.len() { SPI.w[SPI.n][i] = b[i]; } i += 1; }
                            SPI.wl[SPI.n] = b.len();
                            SPI.rd_at[SPI.n] = SPI.rdn;
                            SPI.n += 1;
                        }
                        if REGS.on && k == 0 && b.len() >= 1 {
                            REGS.addr = b[0] & 0x7f;
                            if b[0] & 0x80 != 0 && b.len() == 2 { REGS.r[REGS.addr as usize] = b[1]; }
                        }
                    }
                    Operation::Read(b) => {
                        // the chip answers with arbitrary bytes
                        let mut i = 0;
                        while i < b.len() { b[i] = if REGS.on { REGS.r[(REGS.addr as usize + i) & 0x7f] } else { tape::stub_u8() }; if SPI.rdn < RD_LEN { SPI.rd[SPI.rdn] = b[i]; SPI.rdn += 1; } i += 1; }
                        SPI.reads += 1;
                    }
                    _ => {}
                }
                k += 1;
            }
            Ok(())
        }
    }
}

pub(crate) static mut RESETS: u32 = 0;
pub(crate) static mut RESET_AT_N: usize = 0;
/// uninterpreted-function contract-stub support: a conversion replaced by its contract must still be a FUNCTION (same argument,
/// same result) when a harness calls it more than once
pub(crate) static mut UF: [(bool, u32, u32); 3] = [(false, 0, 0); 3];
pub(crate) fn uf_apply(arg: u32) -> u32 {
    unsafe {
        let mut i = 0;
        while i < 3 { if UF[i].0 && UF[i].1 == arg { return UF[i].2; } i += 1; }
        let ret = u32::from_le_bytes(tape::stub_arr::<4>());
        let mut i = 0;
        while i < 3 { if !UF[i].0 { UF[i] = (true, arg, ret); return ret; } i += 1; }
        assert!(false, "verif-machinery: uninterpreted-function table full");
        ret
    }
}
pub(crate) struct MockIv;
impl InterfaceVariant for MockIv {
    /// hardware reset.  Register-file contract (when on): every configuration register returns to its power-on value -- modelled
    /// as one arbitrary byte for all of them, except RegFrf = 0x6C8000 (434 MHz) and RegOpMode = FSK standby -- so nothing the
    /// driver programmed before survives.  RESETS counts them; RESET_AT_N is the SPI write-log position of the last one.
    fn reset(&mut self, _delay: &mut impl embedded_hal::delay::DelayNs) -> Result<(), RadioError> {
        unsafe {
            RESETS += 1; RESET_AT_N = SPI.n;
            if REGS.on { let v = tape::stub_u8(); let mut i = 0; while i < 128 { REGS.r[i] = v; i += 1; } REGS.r[0x06] = 0x6C; REGS.r[0x07] = 0x80; REGS.r[0x08] = 0x00; REGS.r[0x01] = 0x09; }
        }
        Ok(())
    }
    fn wait_on_busy(&mut self) -> Result<(), RadioError> { Ok(()) }
    fn await_irq(&mut self) -> Result<(), RadioError> { Ok(()) }
    fn enable_rf_switch_rx(&mut self) -> Result<(), RadioError> { Ok(()) }
    fn enable_rf_switch_tx(&mut self) -> Result<(), RadioError> { Ok(()) }
    fn disable_rf_switch(&mut self) -> Result<(), RadioError> { Ok(()) }
}
pub(crate) struct MockDelay;
impl embedded_hal::delay::DelayNs for MockDelay { fn delay_ns(&mut self, _ns: u32) {} }
