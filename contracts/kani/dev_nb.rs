// Contracts + harnesses for lorawan-device/src/nb_device/state.rs (C04 totality, C06 counter discipline, C07 NoUpdate keeps the
// window, C10 window timing).  The MAC layer is contract-stubbed (its contracts: dev_session / dev_mac / dev_otaa); the radio is
// a user-supplied PhyRxTx whose answers are arbitrary (A-radio).
// @inject file=lorawan-device/src/nb_device/state.rs mod=verif_nb
// @job pkg=lorawan-device zflags=function-contracts,stubbing
// @requires common_tape dev_uplink dev_region dev_session dev_mac
use super::*;
use crate::verif_tape as tape;
use crate::region::verif_region::TapeRng;
use crate::mac::verif_mac::any_mac;

#[derive(Debug)] pub(crate) struct PhyEv;
#[derive(Debug)] pub(crate) struct PhyErr(u8);   // not zero-sized (DESIGN 15)
#[derive(Debug)] pub(crate) struct PhyResp;
/// ghost log of the radio contract-stub
pub(crate) struct RadioLog { pub tx_requests: u8, pub rx_requests: u8, pub cancels: u8, pub phy_events: u8, pub last_rx: Option<radio::RfConfig>, pub calls: u8 }
pub(crate) static mut RL: RadioLog = RadioLog { tx_requests: 0, rx_requests: 0, cancels: 0, phy_events: 0, last_rx: None, calls: 0 };
pub(crate) struct MockRadio { pkt: [u8; 8], offset: i32, duration: u32, sending: bool }
impl radio::PhyRxTx for MockRadio {
    type PhyEvent = PhyEv; type PhyError = PhyErr; type PhyResponse = PhyResp;
    const MAX_RADIO_POWER: u8 = 14;
    fn get_mut_radio(&mut self) -> &mut Self { self }
    fn get_received_packet(&mut self) -> &mut [u8] { &mut self.pkt }
    fn handle_event(&mut self, event: radio::Event<'_, Self>) -> Result<radio::Response<Self>, PhyErr> {
        unsafe {
            RL.calls += 1;
            match event {
                radio::Event::TxRequest(..) => RL.tx_requests += 1,
                radio::Event::RxRequest(c) => { RL.rx_requests += 1; RL.last_rx = Some(c); }
                radio::Event::CancelRx => RL.cancels += 1,
                radio::Event::Phy(_) => RL.phy_events += 1,
            }
        }
        // the radio may answer anything -- except (A-radio, documented by the panic!() arm of SendingData) that while a
        // transmission is in flight a PHY event is answered with TxDone or an error
        let k = tape::stub_u8() % 7;
        let k = if self.sending && k != 0 { 4 } else { k };
        match k {
            0 => Err(PhyErr(1)),
            1 => Ok(radio::Response::Idle),
            2 => Ok(radio::Response::Txing),
            3 => Ok(radio::Response::Rxing),
            4 => Ok(radio::Response::TxDone(u32::from_le_bytes(tape::stub_arr()) >> 2)),   // A-board: millisecond timestamps below 2^30
            5 => Ok(radio::Response::RxDone(radio::RxQuality::new(0, tape::stub_u8() as i8))),
            _ => Ok(radio::Response::Phy(PhyResp)),
        }
    }
}
impl Timings for MockRadio {
    fn get_rx_window_offset_ms(&self) -> i32 { self.offset }
    fn get_rx_window_duration_ms(&self) -> u32 { self.duration }
}

// ---- MAC contract-stubs (ghost: which MAC entry points ran)
/// per handle_rx call (up to 4): what the front-end handed to the MAC -- the frame (length, first byte), the SNR and the window's RF configuration
pub(crate) struct MacLog { pub send: u8, pub join: u8, pub handle_rx: u8, pub rx2_complete: u8, pub resp: u8,
    pub rx_len: [usize; 4], pub rx_b0: [u8; 4], pub rx_snr: [i8; 4], pub rx_rf_freq: [u32; 4], pub rx_rf_maxlen: [u8; 4] }
/// 0: any response kind; 1: the kinds a JOINED session produces (contracts of Session::handle_rx / rx2_complete);
/// 2: the kinds an OTAA attempt produces (Otaa::handle_rx / rx2_complete)
pub(crate) static mut MAC_MODE: u8 = 0;
pub(crate) static mut ML: MacLog = MacLog { send: 0, join: 0, handle_rx: 0, rx2_complete: 0, resp: 0, rx_len: [0; 4], rx_b0: [0; 4], rx_snr: [0; 4], rx_rf_freq: [0; 4], rx_rf_maxlen: [0; 4] };
fn any_rf() -> radio::RfConfig {
    radio::RfConfig { frequency: tape::u32(), bb: radio::BaseBandModulationParams::new(lora_modulation::SpreadingFactor::_7, lora_modulation::Bandwidth::_125KHz, lora_modulation::CodingRate::_4_5), max_payload_len: tape::u8() }
}
fn any_windows() -> RxWindows { RxWindows { rx1: any_rf(), rx2: any_rf() } }
fn windows_eq(a: &RxWindows, b: &RxWindows) -> bool { a.rx1 == b.rx1 && a.rx2 == b.rx2 }
pub(crate) fn stub_mac_send<RNG: RngCore, const N: usize>(_m: &mut Mac, _rng: &mut RNG, _buf: &mut RadioBuffer<N>, _d: &mac::SendData<'_>) -> mac::Result<(radio::TxConfig, RxWindows, mac::FcntUp)> {
    unsafe { ML.send += 1; }
    if tape::stub_bool() { Err(mac::Error::NotJoined) } else { Ok((radio::TxConfig { pw: 0, rf: any_rf() }, any_windows(), u32::from_le_bytes(tape::stub_arr()))) }
}
pub(crate) fn stub_mac_join<RNG: RngCore, const N: usize>(_m: &mut Mac, _rng: &mut RNG, _c: NetworkCredentials, _buf: &mut RadioBuffer<N>) -> (radio::TxConfig, RxWindows, u16) {
    unsafe { ML.join += 1; }
    (radio::TxConfig { pw: 0, rf: any_rf() }, any_windows(), 7)
}
/// every response kind Mac::handle_rx / rx2_complete can produce in this feature set
fn any_mac_response(k: u8) -> mac::Response {
    match k % 7 { 0 => mac::Response::NoUpdate, 1 => mac::Response::NoAck, 2 => mac::Response::SessionExpired, 3 => mac::Response::DownlinkReceived(1),
        4 => mac::Response::NoJoinAccept, 5 => mac::Response::JoinSuccess, _ => mac::Response::RxComplete }
}
pub(crate) fn stub_mac_handle_rx<const N: usize, const D: usize>(_m: &mut Mac, _b: &mut RadioBuffer<N>, _dl: &mut Vec<Downlink, D>, _snr: i8, _rf: &radio::RfConfig) -> mac::Response {
    unsafe {
        let k = ML.handle_rx as usize;
        if k < 4 {
            let fr = _b.as_ref_for_read();
            ML.rx_len[k] = fr.len(); ML.rx_b0[k] = if fr.is_empty() { 0 } else { fr[0] };
            ML.rx_snr[k] = _snr; ML.rx_rf_freq[k] = _rf.frequency; ML.rx_rf_maxlen[k] = _rf.max_payload_len;
        }
        ML.handle_rx += 1;
        let k = tape::stub_u8() % 7;
        ML.resp = match MAC_MODE { 1 => [0u8, 1, 2, 3, 6, 0, 3][k as usize], 2 => [0u8, 5, 0, 5, 0, 5, 0][k as usize], _ => k };
        any_mac_response(ML.resp)
    }
}
pub(crate) fn stub_mac_rx2_complete(_m: &mut Mac) -> mac::Response {
    unsafe {
        ML.rx2_complete += 1;
        let k = 1 + tape::stub_u8() % 6;   // never NoUpdate for a joined/joining device
        ML.resp = match MAC_MODE { 1 => [1u8, 1, 2, 6, 6, 2, 1][k as usize], 2 => 4, _ => k };
        any_mac_response(ML.resp)
    }
}

fn any_frame() -> Frame { if tape::boolean() { Frame::Join } else { Frame::Data } }
fn any_rx() -> Rx { let t = tape::u32() >> 2; if tape::boolean() { Rx::_1(t) } else { Rx::_2(t) } }   // A-board: timestamps below 2^30
fn any_state() -> State {
    match tape::below(4) {
        0 => State::Idle(Idle),
        1 => State::SendingData(SendingData { frame: any_frame(), rx_windows: any_windows() }),
        2 => State::WaitingForRxWindow(WaitingForRxWindow { frame: any_frame(), rx_windows: any_windows(), window: any_rx() }),
        _ => State::WaitingForRx(WaitingForRx { frame: any_frame(), rx_windows: any_windows(), window: any_rx(), rf_config: any_rf() }),
    }
}
fn state_windows(s: &State) -> Option<(Frame, RxWindows)> {
    match s { State::Idle(_) => None, State::SendingData(x) => Some((x.frame, x.rx_windows)), State::WaitingForRxWindow(x) => Some((x.frame, x.rx_windows)), State::WaitingForRx(x) => Some((x.frame, x.rx_windows)) }
}
fn kind(s: &State) -> u8 { match s { State::Idle(_) => 0, State::SendingData(_) => 1, State::WaitingForRxWindow(_) => 2, State::WaitingForRx(_) => 3 } }

/// one step of the front-end state machine from ANY state with ANY event and ANY radio answer
fn step_contract(ev_kind: usize) {
    tape::init();
    let mut mac = Mac::new(region::Configuration::new(region::Region::EU868), 14, 0);
    mac.configuration.rx1_delay = 1000 * (1 + tape::below(15) as u32);
    let mut radio = MockRadio { pkt: tape::arr(), offset: tape::i8() as i32 * 4, duration: tape::u16() as u32, sending: false };
    let mut rng = TapeRng { draws: 0, free: 0, accept: 0 };
    let mut buf: RadioBuffer<64> = RadioBuffer::new();
    // the application need not have taken an earlier downlink: the queue may be empty or full
    let mut dl: Vec<Downlink, 1> = Vec::new();
    if tape::boolean() { let _ = dl.push(Downlink { data: Vec::new(), fport: tape::u8() }); }
    let s0 = any_state();
    // A-radio: in SendingData the radio answers a PHY event with TxDone or an error (the code documents a panic otherwise);
    // A-board: timestamps stay below 2^31 so that the i32 arithmetic of the window computation does not wrap
    let data = [0u8; 1];
    let event: Event<'_, MockRadio> = match ev_kind {
        0 => Event::TimeoutFired,
        1 => Event::RadioEvent(radio::Event::Phy(PhyEv)),
        2 => Event::SendDataRequest(mac::SendData { data: &data, fport: 1, confirmed: tape::boolean() }),
        _ => Event::Join(NetworkCredentials::new(AppEui::from([0u8; 8]), DevEui::from([0u8; 8]), AppKey::from([0u8; 16]))),
    };
    let k0 = kind(&s0);
    radio.sending = k0 == 1;
    let w0 = state_windows(&s0);
    let rf0 = if let State::WaitingForRx(a) = &s0 { Some(a.rf_config) } else { None };
    let (pkt_len, pkt_b0) = (radio.pkt.len(), radio.pkt[0]);
    let (s1, r) = s0.handle_event::<MockRadio, TapeRng, 64, 1>(&mut mac, &mut radio, &mut rng, &mut buf, &mut dl, event);
    let k1 = kind(&s1);
    let ml = unsafe { &*(&raw const ML) };
    let rl = unsafe { &*(&raw const RL) };
    // C06: the device returns to Idle from a receive procedure only together with a MAC step that advances FCntUp
    // (rx2_complete, or an accepted frame in handle_rx) -- never silently
    if k0 != 0 && k1 == 0 {
        assert!(k0 == 3, "C06 only a receive window can end the procedure");
        assert!((ml.rx2_complete == 1 && ml.handle_rx == 0) || (ml.handle_rx == 1 && ml.resp != 0 && ml.rx2_complete == 0), "C06 the procedure ends through rx2_complete or an accepted frame, exactly once");
        assert!(r.is_ok(), "ending the procedure is reported as a response");
    }
    // C06/C04: a radio error never changes the state
    if let Err(crate::nb_device::Error::Radio(_)) = r { assert!(k1 == k0, "C06 on a radio error the state is kept"); }
    // C10: the windows bound at TX time travel unchanged through every transition of the receive procedure
    if let (Some((f0, w)), Some((f1, w1))) = (w0, state_windows(&s1)) {
        assert!(windows_eq(&w, &w1) && core::mem::discriminant(&f0) == core::mem::discriminant(&f1), "C10 RX windows are bound by value at TX time and passed through unchanged");
    }
    // C07: a stray frame (MAC says NoUpdate) keeps the window open: same state, NoUpdate, no further radio command
    if k0 == 3 && ml.handle_rx == 1 && ml.resp == 0 {
        assert!(k1 == 3 && matches!(r, Ok(Response::NoUpdate)) && rl.calls == 1, "C07 a frame the MAC does not accept leaves the receive window open and issues no radio command");
        if let (State::WaitingForRx(a), State::WaitingForRx(b)) = (&s0, &s1) { assert!(a.rf_config == b.rf_config, "C07 same window configuration"); }
    }
    // C05/C10/C18: what the MAC gets is the received packet (all of it, nothing else) and the configuration of THE WINDOW IT WAS
    // RECEIVED IN (its max_payload_len is what the size check of C05 uses)
    if k0 == 3 && ml.handle_rx == 1 {
        if let Some(rf) = rf0 {
            assert!(ml.rx_rf_freq[0] == rf.frequency && ml.rx_rf_maxlen[0] == rf.max_payload_len, "C05/C10 the MAC judges a frame by the window it was received in");
        }
        assert!(ml.rx_len[0] == pkt_len && (pkt_len == 0 || ml.rx_b0[0] == pkt_b0), "C18 the MAC is handed exactly the bytes the radio received");
    }
    // events that make no sense in a state are refused without touching MAC or radio
    if k0 != 0 && ev_kind >= 2 { assert!(r.is_err() && k1 == k0 && ml.send == 0 && ml.join == 0 && rl.calls == 0, "C04 send/join while busy is refused, nothing happens"); }
    if k0 == 0 && ev_kind == 1 { assert!(r.is_err() && rl.calls == 0, "C04 radio event while idle is refused"); }
    kani::cover!(true, "verif-reached: step done");
    kani::cover!(k0 == 3 && k1 == 0, "verif-maybe: procedure ended");
    kani::cover!(k0 == 0 && k1 == 2, "verif-maybe: synchronous TX done");
    kani::cover!(k0 == 3 && k1 == 2, "verif-maybe: RX1 -> RX2");
}
// @verif props=C04,C06,C07,C10 obligation=nb_device::State::handle_event.step[TimeoutFired] label=proved-complete tier=quick bound="any state x this event x any radio answer x any MAC answer; A-radio: TxDone/error while sending; MAC layer contract-stubbed"
#[kani::proof]
#[kani::stub(crate::mac::Mac::send, stub_mac_send)]
#[kani::stub(crate::mac::Mac::join_otaa, stub_mac_join)]
#[kani::stub(crate::mac::Mac::handle_rx, stub_mac_handle_rx)]
#[kani::stub(crate::mac::Mac::rx2_complete, stub_mac_rx2_complete)]
#[kani::unwind(66)]
fn c06_nb_step_timeoutfired() {
    
    step_contract(0)
}
// @verif props=C04,C06,C07,C10,C05,C18 obligation=nb_device::State::handle_event.step[RadioEvent] label=proved-complete tier=quick bound="any state x this event x any radio answer x any MAC answer; A-radio: TxDone/error while sending; MAC layer contract-stubbed"
#[kani::proof]
#[kani::stub(crate::mac::Mac::send, stub_mac_send)]
#[kani::stub(crate::mac::Mac::join_otaa, stub_mac_join)]
#[kani::stub(crate::mac::Mac::handle_rx, stub_mac_handle_rx)]
#[kani::stub(crate::mac::Mac::rx2_complete, stub_mac_rx2_complete)]
#[kani::unwind(66)]
fn c06_nb_step_radioevent() {
    // A-radio precondition for the documented panic!() arm of SendingData
    step_contract(1)
}
// @verif props=C04,C06,C07,C10 obligation=nb_device::State::handle_event.step[SendDataRequest] label=proved-complete tier=quick bound="any state x this event x any radio answer x any MAC answer; A-radio: TxDone/error while sending; MAC layer contract-stubbed"
#[kani::proof]
#[kani::stub(crate::mac::Mac::send, stub_mac_send)]
#[kani::stub(crate::mac::Mac::join_otaa, stub_mac_join)]
#[kani::stub(crate::mac::Mac::handle_rx, stub_mac_handle_rx)]
#[kani::stub(crate::mac::Mac::rx2_complete, stub_mac_rx2_complete)]
#[kani::unwind(66)]
fn c06_nb_step_senddatarequest() {
    
    step_contract(2)
}
// @verif props=C04,C06,C07,C10 obligation=nb_device::State::handle_event.step[Join] label=proved-complete tier=quick bound="any state x this event x any radio answer x any MAC answer; A-radio: TxDone/error while sending; MAC layer contract-stubbed"
#[kani::proof]
#[kani::stub(crate::mac::Mac::send, stub_mac_send)]
#[kani::stub(crate::mac::Mac::join_otaa, stub_mac_join)]
#[kani::stub(crate::mac::Mac::handle_rx, stub_mac_handle_rx)]
#[kani::stub(crate::mac::Mac::rx2_complete, stub_mac_rx2_complete)]
#[kani::unwind(66)]
fn c06_nb_step_join() {
    
    step_contract(3)
}

// C10: window timing arithmetic of the non-blocking front-end
// @verif props=C10 obligation=nb_device::data_rxwindow1_timeout+window arithmetic label=proved-complete tier=quick bound="any RX delay 1..15 s (join: 5/6 s), any TX-done timestamp below 2^30 ms, any window offset/duration"
#[kani::proof]
#[kani::unwind(66)]
fn c10_nb_window_timing() {
    tape::init();
    let mut mac = Mac::new(region::Configuration::new(region::Region::EU868), 14, 0);
    mac.configuration.rx1_delay = 1000 * (1 + tape::below(15) as u32);
    let mut radio = MockRadio { pkt: [0; 8], offset: tape::i8() as i32 * 4, duration: tape::u16() as u32, sending: false };
    let frame = any_frame();
    let w = any_windows();
    let ts = tape::u32();
    kani::assume(ts < (1 << 30));
    let d1 = mac.get_rx_delay(&frame, &Window::_1);
    let d2 = mac.get_rx_delay(&frame, &Window::_2);
    assert!(d2 == d1 + 1000, "C10 RX2 opens one second after RX1");
    kani::assume(d1 as i64 + ts as i64 + radio.offset as i64 >= 0);          // A-board: the lead time does not exceed the delay
    let (s, r) = data_rxwindow1_timeout::<MockRadio, 64>(frame, w, &mut mac, &mut radio, ts);
    let t1 = (d1 as i64 + ts as i64 + radio.offset as i64) as u32;
    assert!(matches!(r, Ok(Response::TimeoutRequest(t)) if t == t1), "C10 RX1 opens at end of TX + RX1 delay, adjusted only by the board's declared offset");
    match s {
        State::WaitingForRxWindow(x) => assert!(matches!(x.window, Rx::_1(t) if t == t1) && windows_eq(&x.rx_windows, &w), "C10 window 1 armed with the windows bound at TX time"),
        _ => assert!(false, "waits for window 1"),
    }
    kani::cover!(true, "verif-reached: end");
}

// ------------------------------------------------------------------------------------------------
// C12: "disabling ADR restarts the count" -- Device::set_adr of this front-end, from any session
fn set_adr_post(old: Option<crate::mac::Session>, new: Option<&crate::mac::Session>, old_enabled: bool, now_enabled: bool, arg: bool) {
    let _ = old_enabled;
    assert!(now_enabled == arg, "C12 set_adr stores the flag");
    match (old, new) {
        (Some(o), Some(n)) => {
            if !arg { assert!(n.adr_ack_cnt == 0, "C12 disabling ADR restarts the ADR acknowledgement count"); }
            else { assert!(n.adr_ack_cnt == o.adr_ack_cnt, "C12 enabling ADR leaves the count alone"); }
            assert!(crate::mac::verif_mac::sessions_equal_but_adr_cnt(&o, n), "set_adr frame: nothing else of the session changes");
        }
        (None, None) => {}
        _ => { assert!(false, "set_adr neither creates nor destroys a session"); }
    }
}
// @verif props=C12 obligation=nb_device::Device::set_adr.contract label=proved-complete tier=quick bound="joined with any session, or not joined"
#[kani::proof]
#[kani::unwind(18)]
fn c12_nb_set_adr() {
    tape::init();
    let radio = MockRadio { pkt: tape::arr(), offset: 0, duration: 0, sending: false };
    let mut d: crate::nb_device::Device<MockRadio, TapeRng, 64, 1> = crate::nb_device::Device::new(region::Configuration::new(region::Region::EU868), radio, TapeRng { draws: 0, free: 0, accept: 0 });
    if tape::boolean() { d.shared.mac.set_session(crate::mac::verif_mac::any_joined_session()); }
    d.shared.mac.configuration.adr_enabled = tape::boolean();
    let old = d.shared.mac.get_session().cloned();
    let old_enabled = d.get_adr();
    let arg = tape::boolean();
    d.set_adr(arg);
    set_adr_post(old, d.shared.mac.get_session(), old_enabled, d.get_adr(), arg);
    kani::cover!(d.shared.mac.get_session().is_some() && !arg, "verif-reached: joined, ADR switched off");
    kani::cover!(d.shared.mac.get_session().is_none(), "verif-reached: not joined");
}
