// Contracts for the HAND-WRITTEN creators of the multicast-setup and certification command sets (C19); the derive-generated
// creators are covered by enc_maccmd.rs.  Injected into multicast/group_status.rs so that the private `items` field of
// McGroupStatusAnsCreator is reachable: every operation is checked from an ARBITRARY well-formed creator state, not from new().
//
//   wf(c)  :=  items <= 4,  data[0] == CID,  the RFU bit of the status byte is clear,
//              popcount(AnsGroupMask) == items,  the stored items carry pairwise distinct group ids < 4, each with its mask bit set
//   push(g, a)          g < 4, g not yet reported, items < 4  =>  Ok: item appended, mask bit g set, NOTHING else changed
//                       otherwise                              =>  Err and the creator is unchanged   ("refused, never disturbs neighbours")
//   nb_total_groups(n)  NbTotalGroups == n & 7, AnsGroupMask / RFU / items unchanged               ("truncated to the field")
//   build / parse       parse_one(build()) consumes exactly build().len() bytes and yields NbTotalGroups, AnsGroupMask and the
//                       items (id, address) in the order they were pushed
// Whole-history statement (any sequence of push / nb_total_groups from new()) by induction over wf (meta); new() is the base case.
// @inject file=lorawan-encoding/src/multicast/group_status.rs mod=verif_mcstatus
// @job pkg=lorawan zflags=function-contracts,stubbing
// @requires common_tape enc_parser
#![allow(dead_code)]
use super::*;
use crate::verif_tape as tape;
use crate::maccommands::MacCommandSet;
use crate::multicast::UplinkRemoteSetup;

const CID: u8 = 0x01;
fn wf(c: &McGroupStatusAnsCreator) -> bool {
    if c.items > 4 || c.data[0] != CID || c.data[1] & 0x80 != 0 { return false; }
    let mask = c.data[1] & 0x0f;
    if mask.count_ones() as usize != c.items { return false; }
    let mut seen = 0u8;
    let mut k = 0;
    while k < 4 {
        if k < c.items {
            let g = c.data[2 + 5 * k];
            if g >= 4 || seen & (1 << g) != 0 || mask & (1 << g) == 0 { return false; }
            seen |= 1 << g;
        }
        k += 1;
    }
    true
}
fn any_wf() -> McGroupStatusAnsCreator {
    let mut c = McGroupStatusAnsCreator::new();
    c.data = tape::arr();
    c.items = tape::below(5);
    kani::assume(wf(&c));
    c
}
fn same(a: &McGroupStatusAnsCreator, data: &[u8; 22], items: usize) -> bool { a.data == *data && a.items == items }

// @verif props=C19 obligation=McGroupStatusAnsCreator::new.wf label=proved-complete tier=quick
#[kani::proof]
fn c19_mcstatus_new() {
    tape::init();
    let c = McGroupStatusAnsCreator::new();
    assert!(wf(&c) && c.items == 0 && c.data[1] == 0 && c.len() == 2, "C19 a fresh McGroupStatusAns creator is well formed and empty");
    kani::cover!(true, "verif-reached: end");
}

// @verif props=C19 obligation=McGroupStatusAnsCreator::push.contract label=proved-complete tier=quick bound="any well-formed creator state, every group id 0..=255, every address"
#[kani::proof]
#[kani::unwind(30)]
fn c19_mcstatus_push() {
    tape::init();
    let mut c = any_wf();
    let (d0, i0) = (c.data, c.items);
    let g = tape::u8();
    let addr: [u8; 4] = tape::arr();
    // KF selector hook (none open): see known_findings.json
    let admissible = g < 4 && d0[1] & (1 << (g & 3)) == 0 && i0 < 4;
    let ok = c.push(g, McAddr::from_wire_bytes(addr)).is_ok();
    if admissible {
        assert!(ok && c.items == i0 + 1, "C19 an admissible group is appended");
        assert!(c.data[1] == d0[1] | (1 << g), "C19 push sets exactly the group's AnsGroupMask bit (NbTotalGroups and RFU untouched)");
        let off = 2 + 5 * i0;
        assert!(c.data[off] == g && c.data[off + 1..off + 5] == addr, "C19 the item carries the id and the address in wire order");
        let mut k = 0;
        while k < 22 { if k != 1 && !(k >= off && k < off + 5) { assert!(c.data[k] == d0[k], "C19 push leaves CID and the earlier items alone"); } k += 1; }
        assert!(wf(&c), "C19 push keeps the creator well formed");
        kani::cover!(true, "verif-reached: accepted");
    } else {
        assert!(!ok, "C19 a group id outside 0..=3, a group that is already reported, or a fifth item is refused");
        assert!(same(&c, &d0, i0), "C19 a refused push changes nothing");
        kani::cover!(g >= 4, "verif-reached: refused (id out of range)");
        kani::cover!(g < 4 && i0 < 4, "verif-reached: refused (duplicate)");
    }
}

// @verif props=C19 obligation=McGroupStatusAnsCreator::nb_total_groups.contract label=proved-complete tier=quick bound="any well-formed creator state, every u8 argument"
#[kani::proof]
#[kani::unwind(30)]
fn c19_mcstatus_nb_total_groups() {
    tape::init();
    let mut c = any_wf();
    let (d0, i0) = (c.data, c.items);
    let n = tape::u8();
    c.nb_total_groups(n);
    assert!((c.data[1] >> 4) & 7 == n & 7, "C19 NbTotalGroups is the value truncated to its 3-bit field");
    assert!(c.data[1] & 0x8f == d0[1] & 0x8f, "C19 setting NbTotalGroups never disturbs AnsGroupMask or the RFU bit");
    let mut k = 0;
    while k < 22 { if k != 1 { assert!(c.data[k] == d0[k], "C19 nothing but the status byte changes"); } k += 1; }
    assert!(c.items == i0 && wf(&c), "C19 item count unchanged, still well formed");
    kani::cover!(i0 == 4 && n > 7, "verif-reached: full creator, out-of-range total");
}

// @verif props=C19 obligation=McGroupStatusAnsCreator::build->parse_one.roundtrip label=proved-complete tier=quick bound="any well-formed creator state (0..=4 items), followed by 0..=3 arbitrary bytes of a next command"
#[kani::proof]
#[kani::unwind(30)]
fn c19_mcstatus_build_parse() {
    tape::init();
    let c = any_wf();
    let b = c.build();
    assert!(b.len() == 2 + 5 * c.items && b.len() == c.len() && b[0] == CID, "C19 build() = CID, status, the items");
    // the stream continues with other bytes: the parser must stop exactly at the end of this command
    let mut stream = [0u8; 25];
    let tail: [u8; 3] = tape::arr();
    let extra = tape::below(4);
    let mut k = 0;
    while k < 25 { stream[k] = if k < b.len() { b[k] } else if k - b.len() < 3 { tail[k - b.len()] } else { 0 }; k += 1; }
    let total = b.len() + extra;
    match <UplinkRemoteSetup<'_> as MacCommandSet<'_>>::parse_one(&stream[..total]) {
        Ok((UplinkRemoteSetup::McGroupStatusAns(p), n)) => {
            assert!(n == b.len(), "C19 parse consumes exactly what the creator built (the next command starts right after it)");
            assert!(p.nb_total_groups() == (c.data[1] >> 4) & 7 && p.ans_group_mask() == c.data[1] & 0x0f, "C19 NbTotalGroups / AnsGroupMask read back as set");
            let mut it = p.item_iterator();
            let mut k = 0;
            while k < 4 {
                if k < c.items {
                    match it.next() {
                        Some(item) => assert!(item.mc_group_id() == c.data[2 + 5 * k] && item.mc_addr().as_wire_bytes()[..] == c.data[3 + 5 * k..7 + 5 * k], "C19 items read back in push order"),
                        None => assert!(false, "C19 every pushed item is read back"),
                    }
                }
                k += 1;
            }
            assert!(it.next().is_none(), "C19 no item beyond the pushed ones");
            kani::cover!(c.items == 4, "verif-reached: four items");
            kani::cover!(c.items == 0 && extra == 3, "verif-reached: no item, trailing bytes");
        }
        _ => assert!(false, "C19 a built McGroupStatusAns parses back as McGroupStatusAns"),
    }
}

// ------------------------------------------------------------------------------------------------ McGroupStatusReq / Delete / Setup (bit fields)
use crate::multicast::{DownlinkRemoteSetup, McGroupDeleteReqCreator, McGroupDeleteAnsCreator, McGroupSetupAnsCreator, McGroupSetupReqCreator, PackageVersionAnsCreator};

// @verif props=C19 obligation=multicast_bitfield_creators.last_set_wins label=proved-complete tier=quick bound="every pair of successive setter arguments"
#[kani::proof]
#[kani::unwind(30)]
fn c19_mc_bitfield_setters() {
    tape::init();
    let (a, b2, m) = (tape::u8(), tape::u8(), tape::u8());
    // McGroupStatusReq: mask setter truncates to 4 bits; req_group ORs one bit in
    let mut c = McGroupStatusReqCreator::new();
    c.req_group_mask(m);
    if let Ok((DownlinkRemoteSetup::McGroupStatusReq(p), n)) = <DownlinkRemoteSetup<'_> as MacCommandSet<'_>>::parse_one(c.build()) {
        assert!(n == 2 && p.req_group_mask() == m & 0x0f, "C19 McGroupStatusReq.ReqGroupMask truncated to its field");
    } else { assert!(false, "parses"); }
    c.req_group(a);
    if let Ok((DownlinkRemoteSetup::McGroupStatusReq(p), _)) = <DownlinkRemoteSetup<'_> as MacCommandSet<'_>>::parse_one(c.build()) {
        assert!(p.req_group_mask() == (m & 0x0f) | (1 << (a & 3)) && c.build()[1] & 0xf0 == 0, "C19 req_group adds one group, RFU bits stay clear");
    } else { assert!(false, "parses"); }
    // McGroupDeleteReq / McGroupDeleteAns / McGroupSetupAns: the value set LAST is the value carried
    let mut c = McGroupDeleteReqCreator::new();
    c.mc_group_id_header(a); c.mc_group_id_header(b2);
    if let Ok((DownlinkRemoteSetup::McGroupDeleteReq(p), n)) = <DownlinkRemoteSetup<'_> as MacCommandSet<'_>>::parse_one(c.build()) {
        assert!(n == 2 && p.mc_group_id_header() == b2 & 3, "C19 McGroupDeleteReq.McGroupID: the value set last, truncated to 2 bits");
        assert!(c.build()[1] & 0xfc == 0, "C19 RFU bits stay clear");
    } else { assert!(false, "parses"); }
    let und = tape::boolean();
    let mut c = McGroupDeleteAnsCreator::new();
    c.mc_group_id_header(a); c.mc_group_undefined(!und); c.mc_group_id_header(b2); c.mc_group_undefined(und);
    if let Ok((UplinkRemoteSetup::McGroupDeleteAns(p), n)) = <UplinkRemoteSetup<'_> as MacCommandSet<'_>>::parse_one(c.build()) {
        assert!(n == 2 && p.mc_group_id_header() == b2 & 3 && p.mc_group_undefined() == und && c.build()[1] & 0xf8 == 0, "C19 McGroupDeleteAns fields independent, last value wins");
    } else { assert!(false, "parses"); }
    let mut c = McGroupSetupAnsCreator::new();
    c.mc_group_id_header(a); c.mc_group_id_header(b2);
    if let Ok((UplinkRemoteSetup::McGroupSetupAns(p), _)) = <UplinkRemoteSetup<'_> as MacCommandSet<'_>>::parse_one(c.build()) {
        assert!(p.mc_group_id_header() == b2 & 3, "C19 McGroupSetupAns.McGroupID");
    } else { assert!(false, "parses"); }
    let mut c = PackageVersionAnsCreator::new();
    c.package_identifier(a).package_version(b2);
    if let Ok((UplinkRemoteSetup::PackageVersionAns(p), _)) = <UplinkRemoteSetup<'_> as MacCommandSet<'_>>::parse_one(c.build()) {
        assert!(p.package_identifier() == a && p.package_version() == b2, "C19 PackageVersionAns fields");
    } else { assert!(false, "parses"); }
    kani::cover!(true, "verif-reached: end");
}

// McGroupSetupReq: all five fields, key wrapped with the recording crypto (A-crypto): the creator hands the McKey to decrypt_block
// once and stores its output; the payload accessor hands exactly those 16 bytes to encrypt_block and returns ITS output.
use crate::parser::verif_parser::{RecCrypto, LOG};
// @verif props=C19 obligation=McGroupSetupReqCreator.fields+key_wrap label=proved-complete tier=quick bound="every field value; AES as recording contract-stub"
#[kani::proof]
#[kani::unwind(42)]
fn c19_mc_group_setup_req() {
    tape::init();
    let id = tape::u8();
    let addr: [u8; 4] = tape::arr();
    let key: [u8; 16] = tape::arr();
    let (lo, hi) = (tape::u32(), tape::u32());
    let order = tape::boolean();
    let mut c = McGroupSetupReqCreator::new();
    if order { c.min_mc_fcount(lo).max_mc_fcount(hi).mc_key(&RecCrypto, &crate::keys::McKey::from(key)).mc_addr(&McAddr::from_wire_bytes(addr)).mc_group_id_header(id); }
    else { c.mc_group_id_header(id).mc_addr(&McAddr::from_wire_bytes(addr)).mc_key(&RecCrypto, &crate::keys::McKey::from(key)).min_mc_fcount(lo).max_mc_fcount(hi); }
    let g = unsafe { &*(&raw const LOG) };
    assert!(g.dec_calls == 1 && g.enc_calls == 0 && g.blocks_in[0] == key && !g.bad, "C19 the McKey is wrapped with one AES-decrypt of exactly the key bytes");
    let wrapped = g.blocks_out[0];
    let b = c.build();
    assert!(b.len() == 30 && b[0] == 0x02, "C19 McGroupSetupReq: CID 0x02, 29 payload bytes");
    if let Ok((DownlinkRemoteSetup::McGroupSetupReq(p), n)) = <DownlinkRemoteSetup<'_> as MacCommandSet<'_>>::parse_one(b) {
        assert!(n == 30, "C19 parse consumes the whole command");
        assert!(p.mc_group_id_header() == id & 3, "C19 McGroupIDHeader truncated to the 2-bit group id on reading");
        assert!(*p.mc_addr().as_wire_bytes() == addr, "C19 McAddr (setter order does not matter)");
        assert!(p.min_mc_fcount() == lo && p.max_mc_fcount() == hi, "C19 minMcFCount / maxMcFCount, little endian, independent");
        assert!(p.mc_key_encrypted() == wrapped, "C19 the wrapped key is carried verbatim");
        let k2 = p.mc_key_decrypted(&RecCrypto);
        let g = unsafe { &*(&raw const LOG) };
        assert!(g.enc_calls == 1 && g.blocks_in[1] == wrapped && k2.as_ref() == g.blocks_out[1], "C19 unwrapping = one AES-encrypt of the carried block (inverse of the wrap under A-crypto)");
    } else { assert!(false, "parses"); }
    kani::cover!(order, "verif-reached: setters in reverse order");
    kani::cover!(!order, "verif-reached: setters in layout order");
}

// ------------------------------------------------------------------------------------------------ certification (TS009) hand-written creators
use crate::certification::{EchoIncPayloadAnsCreator, RxAppCntAnsCreator, DutVersionsAnsCreator, UplinkDUTCommand};

fn echo_inc(n1: usize, n2: usize) {
    tape::init();
    let d1: [u8; 16] = tape::arr();
    let d2: [u8; 16] = tape::arr();
    let mut c = EchoIncPayloadAnsCreator::new();
    // a creator that was used before (longer or shorter payload) behaves like a fresh one
    c.payload(&d1[..n1]);
    c.payload(&d2[..n2]);
    let b = c.build();
    assert!(b.len() == 1 + n2 && c.len() == 1 + n2 && b[0] == 0x08, "C19 EchoIncPayloadAns: CID 0x08 then the payload");
    let mut k = 0;
    while k < 16 { if k < n2 { assert!(b[1 + k] == d2[k].wrapping_add(1), "C19 every payload byte incremented by one (mod 256)"); } k += 1; }
    match <UplinkDUTCommand<'_> as MacCommandSet<'_>>::parse_one(b) {
        Ok((UplinkDUTCommand::EchoIncPayloadAns(p), n)) => { assert!(n2 > 0 && n == b.len() && p.payload() == &b[1..], "C19 the built answer parses back with the same payload"); }
        Err(_) => assert!(n2 == 0, "C19 only the empty echo (a lone CID) is not a command"),
        _ => assert!(false, "C19 parses as EchoIncPayloadAns"),
    }
    kani::cover!(true, "verif-reached: end");
}
// @verif props=C19 obligation=EchoIncPayloadAnsCreator::payload.contract[16-after-3] label=bounded(payload<=16) tier=quick bound="payload of 16 bytes set after one of 3 bytes; all contents symbolic"
#[kani::proof]
#[kani::unwind(20)]
fn c19_echo_inc_16_after_3() { echo_inc(3, 16) }
// @verif props=C19 obligation=EchoIncPayloadAnsCreator::payload.contract[2-after-16] label=bounded(payload<=16) tier=quick bound="payload of 2 bytes set after one of 16 bytes"
#[kani::proof]
#[kani::unwind(20)]
fn c19_echo_inc_2_after_16() { echo_inc(16, 2) }
// @verif props=C19 obligation=EchoIncPayloadAnsCreator::payload.contract[0-after-5] label=bounded(payload<=16) tier=quick bound="empty payload set after one of 5 bytes"
#[kani::proof]
#[kani::unwind(20)]
fn c19_echo_inc_0_after_5() { echo_inc(5, 0) }

// @verif props=C19 obligation=RxAppCntAns+DutVersionsAns_creators.fields label=proved-complete tier=quick
#[kani::proof]
#[kani::unwind(16)]
fn c19_dut_fixed_creators() {
    tape::init();
    let v = tape::u16();
    let mut c = RxAppCntAnsCreator::new();
    c.set_rx_app_cnt(v);
    let b = c.build();
    assert!(b.len() == 3 && b[0] == 0x09 && b[1] == v as u8 && b[2] == (v >> 8) as u8, "C19 RxAppCntAns: 16-bit counter little endian");
    assert!(matches!(<UplinkDUTCommand<'_> as MacCommandSet<'_>>::parse_one(b), Ok((UplinkDUTCommand::RxAppCntAns(_), 3))), "C19 parses back");
    let raw: [u8; 12] = tape::arr();
    let mut c = DutVersionsAnsCreator::new();
    c.set_versions_raw(raw);
    let b = c.build();
    assert!(b.len() == 13 && b[0] == 0x7f && b[1..] == raw, "C19 DutVersionsAns carries the 12 version bytes");
    assert!(matches!(<UplinkDUTCommand<'_> as MacCommandSet<'_>>::parse_one(b), Ok((UplinkDUTCommand::DutVersionsAns(_), 13))), "C19 parses back");
    kani::cover!(true, "verif-reached: end");
}
