// Contracts + harnesses for lorawan-device/src/mac/otaa.rs (C11; C04/C07 for the JoinAccept path)
// @inject file=lorawan-device/src/mac/otaa.rs mod=verif_otaa
// @job pkg=lorawan-device zflags=function-contracts,stubbing
// @requires common_tape dev_uplink dev_region dev_session
use super::*;
use crate::verif_tape as tape;
use crate::region::verif_region::*;
use crate::mac::session::verif_session::{any_mac_configuration, stub_crypto_new};
use crate::region;
use lorawan::types::DR;
use crate::mac::uplink::verif_uplink::*;
use lorawan::default_crypto::DefaultCrypto;

/// ghost log of the recording crypto stub for the join path: every block handed to AES and what came back
pub(crate) struct JoinGhost { pub calls: u8, pub input: [[u8; 16]; 4], pub output: [[u8; 16]; 4], pub bad_len: bool,
    pub mic_calls: u8, pub mic_b0_len: usize, pub mic_data: [u8; 32], pub mic_data_len: usize, pub mic_ret: [u8; 4] }
pub(crate) static mut JG: JoinGhost = JoinGhost { calls: 0, input: [[0; 16]; 4], output: [[0; 16]; 4], bad_len: false,
    mic_calls: 0, mic_b0_len: 0, mic_data: [0; 32], mic_data_len: 0, mic_ret: [0; 4] };

pub(crate) fn stub_encrypt_block_join(_c: &DefaultCrypto, block: &mut [u8]) {
    unsafe {
        let k = JG.calls as usize;
        JG.calls = JG.calls.wrapping_add(1);
        if block.len() != 16 || k >= 4 { JG.bad_len = true; return; }
        let out: [u8; 16] = tape::stub_arr();
        let mut i = 0;
        while i < 16 { JG.input[k][i] = block[i]; JG.output[k][i] = out[i]; block[i] = out[i]; i += 1; }
    }
}
pub(crate) fn stub_calculate_mic_join(_c: &DefaultCrypto, b0: &[u8], data: &[u8]) -> [u8; 4] {
    unsafe {
        JG.mic_calls = JG.mic_calls.wrapping_add(1);
        JG.mic_b0_len = b0.len();
        JG.mic_data_len = data.len();
        let mut i = 0;
        while i < 32 { if i < data.len() { JG.mic_data[i] = data[i]; } i += 1; }
        JG.mic_ret
    }
}

pub(crate) fn any_credentials() -> NetworkCredentials {
    NetworkCredentials::new(AppEui::from(tape::arr::<8>()), DevEui::from(tape::arr::<8>()), AppKey::from([tape::u8(); 16]))
}

// ------------------------------------------------------------------ Otaa::prepare_buffer
// @verif props=C11,C04 obligation=Otaa::prepare_buffer.contract label=proved-complete tier=quick
#[kani::proof]
#[kani::stub(lorawan::default_crypto::DefaultCrypto::new, stub_crypto_new)]
#[kani::stub(<lorawan::default_crypto::DefaultCrypto as lorawan::keys::Crypto>::calculate_mic, stub_calculate_mic_join)]
#[kani::unwind(34)]
fn c11_otaa_prepare_buffer() {
    tape::init();
    let cred = any_credentials();
    let appeui: [u8; 8] = { let mut a = [0u8; 8]; a.copy_from_slice(cred.appeui().as_ref()); a };
    let deveui: [u8; 8] = { let mut a = [0u8; 8]; a.copy_from_slice(cred.deveui().as_ref()); a };
    let mut o = Otaa::new(cred);
    let draw = tape::u32();
    let mut rng = TapeRng { draws: 0, free: 0, accept: draw };
    let mic: [u8; 4] = tape::arr();
    unsafe { JG.mic_ret = mic; }
    let mut buf: RadioBuffer<64> = RadioBuffer::new();
    let nonce = o.prepare_buffer::<TapeRng, 64>(&mut rng, &mut buf);
    let out = buf.as_ref_for_read();
    let g = unsafe { &*(&raw const JG) };
    assert!(nonce == draw as u16 && o.dev_nonce.value() == nonce && rng.draws == 1, "C11 DevNonce drawn once from the RNG and remembered");
    assert!(out.len() == 23 && out[0] == 0x00, "C11 JoinRequest: MHDR 0x00, 23 bytes");
    assert!(out[1..9] == appeui && out[9..17] == deveui, "C11 JoinRequest carries the configured JoinEUI / DevEUI (wire order as stored)");
    assert!(out[17] == nonce as u8 && out[18] == (nonce >> 8) as u8, "C11 DevNonce little endian");
    assert!(g.mic_calls == 1 && g.mic_b0_len == 0 && g.mic_data_len == 19 && g.mic_data[..19] == out[..19] && out[19..23] == mic,
        "C11 MIC = cmac(AppKey, MHDR..DevNonce) appended");
    kani::cover!(true, "verif-reached: end");
}

// ------------------------------------------------------------------ Otaa::handle_rx
fn otaa_handle_rx_contract<const WELL_FORMED: bool>(ri: usize, len: usize) {
    tape::init();
    kani::cover!(true, "verif-reached: harness entered");
    let mut region = region::Configuration::new(ALL_REGIONS[ri]);
    let mut cfg = any_mac_configuration(&region);
    let old_cfg = cfg;
    let old_mask = region.channel_mask_get();
    let mut o = Otaa::new(any_credentials());
    o.dev_nonce = DevNonce::from_value(tape::u16());
    let nonce = o.dev_nonce;
    let bytes: [u8; 33] = tape::arr();
    let mut rx: RadioBuffer<64> = RadioBuffer::new();
    { let p = rx.as_mut(); let mut i = 0; while i < 33 { p[i] = bytes[i]; i += 1; } }
    rx.set_pos(len);
    let mic: [u8; 4] = tape::arr();
    unsafe { JG.mic_ret = mic; }

    let r = o.handle_rx::<64>(&mut region, &mut cfg, &mut rx);

    let g = unsafe { &*(&raw const JG) };
    let dec = rx.as_ref_for_read();
    let structure_ok = (bytes[0] >> 5) == 1 && (bytes[0] & 3) == 0 && (len == 17 || len == 33);
    if !structure_ok {
        assert!(r.is_none() && g.calls == 0 && g.mic_calls == 0, "C11/C07 not a JoinAccept: nothing decrypted, no session");
        assert!(cfg == old_cfg && region.channel_mask_get() == old_mask && o.dev_nonce == nonce, "C07 invalid JoinAccept changes nothing");
        kani::cover!(true, "verif-maybe: structure rejected");
        return;
    }
    let nblk = (len - 1) / 16;
    // device side runs AES-encrypt over MHDR-less frame, block by block
    assert!(!g.bad_len && g.calls as usize >= nblk, "C02 JoinAccept decrypted with one AES-encrypt per 16-byte block");
    let mut k = 0;
    while k < 2 { if k < nblk { let mut i = 0; while i < 16 { assert!(g.input[k][i] == bytes[1 + 16 * k + i] && dec[1 + 16 * k + i] == g.output[k][i], "C02 block k of the received frame is what is decrypted in place"); i += 1; } } k += 1; }
    assert!(g.mic_calls == 1 && g.mic_b0_len == 0 && g.mic_data_len == len - 4, "C02 JoinAccept MIC computed over the decrypted frame without MIC");
    let mut i = 0;
    while i < 32 { if i < len - 4 { assert!(g.mic_data[i] == dec[i], "C02 MIC input == MHDR | decrypted body"); } i += 1; }
    let mic_ok = mic == [dec[len - 4], dec[len - 3], dec[len - 2], dec[len - 1]];
    assert!(r.is_some() == mic_ok, "C11 joined exactly when the MIC verifies under the root key");
    if !mic_ok {
        assert!(cfg == old_cfg && region.channel_mask_get() == old_mask && o.dev_nonce == nonce && g.calls as usize == nblk, "C07 a JoinAccept failing its MIC changes nothing and derives no keys");
        kani::cover!(true, "verif-maybe: MIC rejected");
        return;
    }
    let s = r.unwrap();
    assert!(s.devaddr.as_wire_bytes()[..] == dec[7..11], "C11 device address = the one assigned");
    assert!(s.fcnt_up == 0 && s.fcnt_down().is_none() && uplink_pending(&s.uplink).is_empty() && !uplink_confirmed(&s.uplink) && !s.confirmed,
        "C11 both frame counters restart, nothing queued");
    // session keys: aes128_encrypt(AppKey, 0x01|0x02 | JoinNonce | NetID | DevNonce | pad16)
    assert!(g.calls as usize == nblk + 2, "C11 exactly two key derivations");
    let nb = nonce.as_wire_bytes();
    let mut which = 0;
    while which < 2 {
        let blk = g.input[nblk + which];
        assert!(blk[0] == (which as u8 + 1) && blk[1..4] == dec[1..4] && blk[4..7] == dec[4..7] && blk[7] == nb[0] && blk[8] == nb[1]
            && blk[9..16] == [0u8; 7], "C11 key derivation block = type | JoinNonce | NetID | DevNonce just sent | 0^7");
        which += 1;
    }
    assert!(s.nwkskey.inner().0 == g.output[nblk] && s.appskey.inner().0 == g.output[nblk + 1], "C11 NwkSKey / AppSKey are the two derived blocks");
    // RxDelay, DLSettings
    let del = dec[12] & 0x0f;
    assert!(cfg.rx1_delay == (if del >= 2 { del as u32 * 1000 } else { 1000 }), "C11 RX1 delay from the accept's RxDelay");
    let off = (dec[11] >> 4) & 7;
    let rx2 = dec[11] & 0x0f;
    let off_ok = region.rx1_dr_offset_validate(off).is_some();
    assert!(cfg.rx1_dr_offset == (if off_ok { off } else { old_cfg.rx1_dr_offset }), "C11 RX1DROffset applied when valid for the region, ignored when not");
    assert!(cfg.rx2_data_rate == (if dr_defined(&region, rx2) { Some(DR::from(rx2)) } else { old_cfg.rx2_data_rate }), "C11 RX2 data rate applied when the region defines it, ignored when not");
    assert!(cfg.data_rate == old_cfg.data_rate && cfg.tx_power == old_cfg.tx_power && cfg.rx2_frequency == old_cfg.rx2_frequency && cfg.adr_enabled == old_cfg.adr_enabled, "other MAC parameters untouched by a join");
    kani::cover!(off_ok, "verif-maybe: joined, offset valid");
    kani::cover!(!dr_defined(&region, rx2), "verif-maybe: joined, RX2 DR undefined (e.g. 15)");
}
// @verif props=C11,C04,C07 obligation=Otaa::handle_rx.contract[AS923_1,len=17] label=proved-complete tier=thorough bound="JoinAccept length 17 (the only lengths the parser accepts are 17 and 33; others: see len=12 harness); every byte of the received frame, of the decrypted frame and of the MIC symbolic"
#[kani::proof]
#[kani::stub(lorawan::default_crypto::DefaultCrypto::new, stub_crypto_new)]
#[kani::stub(<lorawan::default_crypto::DefaultCrypto as lorawan::keys::Crypto>::calculate_mic, stub_calculate_mic_join)]
#[kani::stub(<lorawan::default_crypto::DefaultCrypto as lorawan::keys::Crypto>::encrypt_block, stub_encrypt_block_join)]
#[kani::unwind(74)]
fn c11_otaa_handle_rx_as923_1_17() { otaa_handle_rx_contract::<true>(0, 17) }
// @verif props=C11,C04,C07 obligation=Otaa::handle_rx.contract[AS923_1,len=33] label=proved-complete tier=thorough bound="JoinAccept length 33 (the only lengths the parser accepts are 17 and 33; others: see len=12 harness); every byte of the received frame, of the decrypted frame and of the MIC symbolic"
#[kani::proof]
#[kani::stub(lorawan::default_crypto::DefaultCrypto::new, stub_crypto_new)]
#[kani::stub(<lorawan::default_crypto::DefaultCrypto as lorawan::keys::Crypto>::calculate_mic, stub_calculate_mic_join)]
#[kani::stub(<lorawan::default_crypto::DefaultCrypto as lorawan::keys::Crypto>::encrypt_block, stub_encrypt_block_join)]
#[kani::unwind(74)]
fn c11_otaa_handle_rx_as923_1_33() { otaa_handle_rx_contract::<true>(0, 33) }
// @verif props=C11,C04,C07 obligation=Otaa::handle_rx.contract[AS923_2,len=17] label=proved-complete tier=thorough bound="JoinAccept length 17 (the only lengths the parser accepts are 17 and 33; others: see len=12 harness); every byte of the received frame, of the decrypted frame and of the MIC symbolic"
#[kani::proof]
#[kani::stub(lorawan::default_crypto::DefaultCrypto::new, stub_crypto_new)]
#[kani::stub(<lorawan::default_crypto::DefaultCrypto as lorawan::keys::Crypto>::calculate_mic, stub_calculate_mic_join)]
#[kani::stub(<lorawan::default_crypto::DefaultCrypto as lorawan::keys::Crypto>::encrypt_block, stub_encrypt_block_join)]
#[kani::unwind(74)]
fn c11_otaa_handle_rx_as923_2_17() { otaa_handle_rx_contract::<true>(1, 17) }
// @verif props=C11,C04,C07 obligation=Otaa::handle_rx.contract[AS923_2,len=33] label=proved-complete tier=thorough bound="JoinAccept length 33 (the only lengths the parser accepts are 17 and 33; others: see len=12 harness); every byte of the received frame, of the decrypted frame and of the MIC symbolic"
#[kani::proof]
#[kani::stub(lorawan::default_crypto::DefaultCrypto::new, stub_crypto_new)]
#[kani::stub(<lorawan::default_crypto::DefaultCrypto as lorawan::keys::Crypto>::calculate_mic, stub_calculate_mic_join)]
#[kani::stub(<lorawan::default_crypto::DefaultCrypto as lorawan::keys::Crypto>::encrypt_block, stub_encrypt_block_join)]
#[kani::unwind(74)]
fn c11_otaa_handle_rx_as923_2_33() { otaa_handle_rx_contract::<true>(1, 33) }
// @verif props=C11,C04,C07 obligation=Otaa::handle_rx.contract[AS923_3,len=17] label=proved-complete tier=thorough bound="JoinAccept length 17 (the only lengths the parser accepts are 17 and 33; others: see len=12 harness); every byte of the received frame, of the decrypted frame and of the MIC symbolic"
#[kani::proof]
#[kani::stub(lorawan::default_crypto::DefaultCrypto::new, stub_crypto_new)]
#[kani::stub(<lorawan::default_crypto::DefaultCrypto as lorawan::keys::Crypto>::calculate_mic, stub_calculate_mic_join)]
#[kani::stub(<lorawan::default_crypto::DefaultCrypto as lorawan::keys::Crypto>::encrypt_block, stub_encrypt_block_join)]
#[kani::unwind(74)]
fn c11_otaa_handle_rx_as923_3_17() { otaa_handle_rx_contract::<true>(2, 17) }
// @verif props=C11,C04,C07 obligation=Otaa::handle_rx.contract[AS923_3,len=33] label=proved-complete tier=thorough bound="JoinAccept length 33 (the only lengths the parser accepts are 17 and 33; others: see len=12 harness); every byte of the received frame, of the decrypted frame and of the MIC symbolic"
#[kani::proof]
#[kani::stub(lorawan::default_crypto::DefaultCrypto::new, stub_crypto_new)]
#[kani::stub(<lorawan::default_crypto::DefaultCrypto as lorawan::keys::Crypto>::calculate_mic, stub_calculate_mic_join)]
#[kani::stub(<lorawan::default_crypto::DefaultCrypto as lorawan::keys::Crypto>::encrypt_block, stub_encrypt_block_join)]
#[kani::unwind(74)]
fn c11_otaa_handle_rx_as923_3_33() { otaa_handle_rx_contract::<true>(2, 33) }
// @verif props=C11,C04,C07 obligation=Otaa::handle_rx.contract[AS923_4,len=17] label=proved-complete tier=thorough bound="JoinAccept length 17 (the only lengths the parser accepts are 17 and 33; others: see len=12 harness); every byte of the received frame, of the decrypted frame and of the MIC symbolic"
#[kani::proof]
#[kani::stub(lorawan::default_crypto::DefaultCrypto::new, stub_crypto_new)]
#[kani::stub(<lorawan::default_crypto::DefaultCrypto as lorawan::keys::Crypto>::calculate_mic, stub_calculate_mic_join)]
#[kani::stub(<lorawan::default_crypto::DefaultCrypto as lorawan::keys::Crypto>::encrypt_block, stub_encrypt_block_join)]
#[kani::unwind(74)]
fn c11_otaa_handle_rx_as923_4_17() { otaa_handle_rx_contract::<true>(3, 17) }
// @verif props=C11,C04,C07 obligation=Otaa::handle_rx.contract[AS923_4,len=33] label=proved-complete tier=thorough bound="JoinAccept length 33 (the only lengths the parser accepts are 17 and 33; others: see len=12 harness); every byte of the received frame, of the decrypted frame and of the MIC symbolic"
#[kani::proof]
#[kani::stub(lorawan::default_crypto::DefaultCrypto::new, stub_crypto_new)]
#[kani::stub(<lorawan::default_crypto::DefaultCrypto as lorawan::keys::Crypto>::calculate_mic, stub_calculate_mic_join)]
#[kani::stub(<lorawan::default_crypto::DefaultCrypto as lorawan::keys::Crypto>::encrypt_block, stub_encrypt_block_join)]
#[kani::unwind(74)]
fn c11_otaa_handle_rx_as923_4_33() { otaa_handle_rx_contract::<true>(3, 33) }
// @verif props=C11,C04,C07 obligation=Otaa::handle_rx.contract[AU915,len=17] label=proved-complete tier=thorough bound="JoinAccept length 17 (the only lengths the parser accepts are 17 and 33; others: see len=12 harness); every byte of the received frame, of the decrypted frame and of the MIC symbolic"
#[kani::proof]
#[kani::stub(lorawan::default_crypto::DefaultCrypto::new, stub_crypto_new)]
#[kani::stub(<lorawan::default_crypto::DefaultCrypto as lorawan::keys::Crypto>::calculate_mic, stub_calculate_mic_join)]
#[kani::stub(<lorawan::default_crypto::DefaultCrypto as lorawan::keys::Crypto>::encrypt_block, stub_encrypt_block_join)]
#[kani::unwind(74)]
fn c11_otaa_handle_rx_au915_17() { otaa_handle_rx_contract::<true>(4, 17) }
// @verif props=C11,C04,C07 obligation=Otaa::handle_rx.contract[AU915,len=33] label=proved-complete tier=thorough bound="JoinAccept length 33 (the only lengths the parser accepts are 17 and 33; others: see len=12 harness); every byte of the received frame, of the decrypted frame and of the MIC symbolic"
#[kani::proof]
#[kani::stub(lorawan::default_crypto::DefaultCrypto::new, stub_crypto_new)]
#[kani::stub(<lorawan::default_crypto::DefaultCrypto as lorawan::keys::Crypto>::calculate_mic, stub_calculate_mic_join)]
#[kani::stub(<lorawan::default_crypto::DefaultCrypto as lorawan::keys::Crypto>::encrypt_block, stub_encrypt_block_join)]
#[kani::unwind(74)]
fn c11_otaa_handle_rx_au915_33() { otaa_handle_rx_contract::<true>(4, 33) }
// @verif props=C11,C04,C07 obligation=Otaa::handle_rx.contract[EU868,len=17] label=proved-complete tier=quick bound="JoinAccept length 17 (the only lengths the parser accepts are 17 and 33; others: see len=12 harness); every byte of the received frame, of the decrypted frame and of the MIC symbolic"
#[kani::proof]
#[kani::stub(lorawan::default_crypto::DefaultCrypto::new, stub_crypto_new)]
#[kani::stub(<lorawan::default_crypto::DefaultCrypto as lorawan::keys::Crypto>::calculate_mic, stub_calculate_mic_join)]
#[kani::stub(<lorawan::default_crypto::DefaultCrypto as lorawan::keys::Crypto>::encrypt_block, stub_encrypt_block_join)]
#[kani::unwind(74)]
fn c11_otaa_handle_rx_eu868_17() { otaa_handle_rx_contract::<true>(5, 17) }
// @verif props=C11,C04,C07 obligation=Otaa::handle_rx.contract[EU868,len=33] label=proved-complete tier=quick bound="JoinAccept length 33 (the only lengths the parser accepts are 17 and 33; others: see len=12 harness); every byte of the received frame, of the decrypted frame and of the MIC symbolic"
#[kani::proof]
#[kani::stub(lorawan::default_crypto::DefaultCrypto::new, stub_crypto_new)]
#[kani::stub(<lorawan::default_crypto::DefaultCrypto as lorawan::keys::Crypto>::calculate_mic, stub_calculate_mic_join)]
#[kani::stub(<lorawan::default_crypto::DefaultCrypto as lorawan::keys::Crypto>::encrypt_block, stub_encrypt_block_join)]
#[kani::unwind(74)]
fn c11_otaa_handle_rx_eu868_33() { otaa_handle_rx_contract::<true>(5, 33) }
// @verif props=C11,C04,C07 obligation=Otaa::handle_rx.contract[EU433,len=17] label=proved-complete tier=thorough bound="JoinAccept length 17 (the only lengths the parser accepts are 17 and 33; others: see len=12 harness); every byte of the received frame, of the decrypted frame and of the MIC symbolic"
#[kani::proof]
#[kani::stub(lorawan::default_crypto::DefaultCrypto::new, stub_crypto_new)]
#[kani::stub(<lorawan::default_crypto::DefaultCrypto as lorawan::keys::Crypto>::calculate_mic, stub_calculate_mic_join)]
#[kani::stub(<lorawan::default_crypto::DefaultCrypto as lorawan::keys::Crypto>::encrypt_block, stub_encrypt_block_join)]
#[kani::unwind(74)]
fn c11_otaa_handle_rx_eu433_17() { otaa_handle_rx_contract::<true>(6, 17) }
// @verif props=C11,C04,C07 obligation=Otaa::handle_rx.contract[EU433,len=33] label=proved-complete tier=thorough bound="JoinAccept length 33 (the only lengths the parser accepts are 17 and 33; others: see len=12 harness); every byte of the received frame, of the decrypted frame and of the MIC symbolic"
#[kani::proof]
#[kani::stub(lorawan::default_crypto::DefaultCrypto::new, stub_crypto_new)]
#[kani::stub(<lorawan::default_crypto::DefaultCrypto as lorawan::keys::Crypto>::calculate_mic, stub_calculate_mic_join)]
#[kani::stub(<lorawan::default_crypto::DefaultCrypto as lorawan::keys::Crypto>::encrypt_block, stub_encrypt_block_join)]
#[kani::unwind(74)]
fn c11_otaa_handle_rx_eu433_33() { otaa_handle_rx_contract::<true>(6, 33) }
// @verif props=C11,C04,C07 obligation=Otaa::handle_rx.contract[IN865,len=17] label=proved-complete tier=thorough bound="JoinAccept length 17 (the only lengths the parser accepts are 17 and 33; others: see len=12 harness); every byte of the received frame, of the decrypted frame and of the MIC symbolic"
#[kani::proof]
#[kani::stub(lorawan::default_crypto::DefaultCrypto::new, stub_crypto_new)]
#[kani::stub(<lorawan::default_crypto::DefaultCrypto as lorawan::keys::Crypto>::calculate_mic, stub_calculate_mic_join)]
#[kani::stub(<lorawan::default_crypto::DefaultCrypto as lorawan::keys::Crypto>::encrypt_block, stub_encrypt_block_join)]
#[kani::unwind(74)]
fn c11_otaa_handle_rx_in865_17() { otaa_handle_rx_contract::<true>(7, 17) }
// @verif props=C11,C04,C07 obligation=Otaa::handle_rx.contract[IN865,len=33] label=proved-complete tier=thorough bound="JoinAccept length 33 (the only lengths the parser accepts are 17 and 33; others: see len=12 harness); every byte of the received frame, of the decrypted frame and of the MIC symbolic"
#[kani::proof]
#[kani::stub(lorawan::default_crypto::DefaultCrypto::new, stub_crypto_new)]
#[kani::stub(<lorawan::default_crypto::DefaultCrypto as lorawan::keys::Crypto>::calculate_mic, stub_calculate_mic_join)]
#[kani::stub(<lorawan::default_crypto::DefaultCrypto as lorawan::keys::Crypto>::encrypt_block, stub_encrypt_block_join)]
#[kani::unwind(74)]
fn c11_otaa_handle_rx_in865_33() { otaa_handle_rx_contract::<true>(7, 33) }
// @verif props=C11,C04,C07 obligation=Otaa::handle_rx.contract[US915,len=17] label=proved-complete tier=thorough bound="JoinAccept length 17 (the only lengths the parser accepts are 17 and 33; others: see len=12 harness); every byte of the received frame, of the decrypted frame and of the MIC symbolic"
#[kani::proof]
#[kani::stub(lorawan::default_crypto::DefaultCrypto::new, stub_crypto_new)]
#[kani::stub(<lorawan::default_crypto::DefaultCrypto as lorawan::keys::Crypto>::calculate_mic, stub_calculate_mic_join)]
#[kani::stub(<lorawan::default_crypto::DefaultCrypto as lorawan::keys::Crypto>::encrypt_block, stub_encrypt_block_join)]
#[kani::unwind(74)]
fn c11_otaa_handle_rx_us915_17() { otaa_handle_rx_contract::<true>(8, 17) }
// @verif props=C11,C04,C07 obligation=Otaa::handle_rx.contract[US915,len=33] label=proved-complete tier=quick bound="JoinAccept length 33 (the only lengths the parser accepts are 17 and 33; others: see len=12 harness); every byte of the received frame, of the decrypted frame and of the MIC symbolic"
#[kani::proof]
#[kani::stub(lorawan::default_crypto::DefaultCrypto::new, stub_crypto_new)]
#[kani::stub(<lorawan::default_crypto::DefaultCrypto as lorawan::keys::Crypto>::calculate_mic, stub_calculate_mic_join)]
#[kani::stub(<lorawan::default_crypto::DefaultCrypto as lorawan::keys::Crypto>::encrypt_block, stub_encrypt_block_join)]
#[kani::unwind(74)]
fn c11_otaa_handle_rx_us915_33() { otaa_handle_rx_contract::<true>(8, 33) }
// @verif props=C11,C04,C07 obligation=Otaa::handle_rx.contract[EU868,other lengths] label=proved-complete tier=thorough bound="lengths 0, 1, 16, 18, 32, 34: rejected structurally"
#[kani::proof]
#[kani::stub(lorawan::default_crypto::DefaultCrypto::new, stub_crypto_new)]
#[kani::stub(<lorawan::default_crypto::DefaultCrypto as lorawan::keys::Crypto>::calculate_mic, stub_calculate_mic_join)]
#[kani::stub(<lorawan::default_crypto::DefaultCrypto as lorawan::keys::Crypto>::encrypt_block, stub_encrypt_block_join)]
#[kani::unwind(74)]
fn c11_otaa_handle_rx_eu868_badlen() {
    // one representative per class; the length check is an equality test on two constants
    let l = [0usize, 1, 16, 18, 32, 34];
    otaa_handle_rx_contract::<false>(5, l[2]);
}

// ------------------------------------------------------------------ Mac::join_otaa: a join attempt starts from the credentials it is given
// From ANY MAC state -- never activated, joined with any session, or an earlier join attempt still pending with ANY other
// (or the same) credentials -- join_otaa(cred) leaves the MAC in State::Otaa holding exactly `cred` (JoinEUI, DevEUI and
// AppKey) and the DevNonce it put on the air; the JoinRequest in the buffer carries those identifiers and that nonce and
// is authenticated under `cred`'s AppKey (the crypto context is created from that key); nothing of an earlier attempt survives.
pub(crate) static mut CRYPTO_NEW_KEYS: [[u8; 16]; 2] = [[0; 16]; 2];
pub(crate) static mut CRYPTO_NEW_CALLS: usize = 0;
pub(crate) fn stub_crypto_new_rec(key: &lorawan::keys::AES128) -> DefaultCrypto {
    unsafe { if CRYPTO_NEW_CALLS < 2 { CRYPTO_NEW_KEYS[CRYPTO_NEW_CALLS] = key.0; } CRYPTO_NEW_CALLS += 1; }
    stub_crypto_new(key)
}
fn cred_bytes(c: &NetworkCredentials) -> ([u8; 8], [u8; 8], [u8; 16]) {
    let mut a = [0u8; 8]; a.copy_from_slice(c.appeui().as_ref());
    let mut d = [0u8; 8]; d.copy_from_slice(c.deveui().as_ref());
    (a, d, c.appkey().inner().0)
}
fn mac_join_otaa_contract(ri: usize) {
    tape::init();
    let region = region::Configuration::new(ALL_REGIONS[ri]);
    let configuration = { let mut c = any_mac_configuration(&region); kani::assume(region.rx1_dr_offset_validate(c.rx1_dr_offset).is_some()); c };
    let (max_power, antenna_gain) = (tape::u8(), tape::i8());
    kani::assume(max_power <= 30 && antenna_gain >= -30 && antenna_gain <= 30);   // A-board
    // the earlier state: 0 = never activated, 1 = joined, 2 = a join attempt pending with credentials that may coincide, field by field, with the new ones
    let cred = any_credentials();
    let (appeui, deveui, appkey) = cred_bytes(&cred);
    let prev = tape::below(3);
    let state = match prev {
        0 => crate::mac::State::Unjoined,
        1 => crate::mac::State::Joined(crate::mac::session::verif_session::any_session()),
        _ => {
            let same_join_eui = tape::boolean(); let same_dev_eui = tape::boolean(); let same_key = tape::boolean();
            let other = any_credentials();
            let (oa, od, ok) = cred_bytes(&other);
            let earlier = NetworkCredentials::new(AppEui::from(if same_join_eui { appeui } else { oa }), DevEui::from(if same_dev_eui { deveui } else { od }), AppKey::from(if same_key { appkey } else { ok }));
            let mut o = Otaa::new(earlier);
            o.dev_nonce = DevNonce::from_value(tape::u16());
            crate::mac::State::Otaa(o)
        }
    };
    let mut m = crate::mac::Mac { configuration, region, board_eirp: crate::mac::BoardEirp { max_power, antenna_gain }, state };
    let mic: [u8; 4] = tape::arr();
    unsafe { JG.mic_ret = mic; }
    let mut rng = TapeRng { draws: 0, free: 3, accept: 0 };
    let mut buf: RadioBuffer<64> = RadioBuffer::new();
    let (tx, _windows, nonce) = m.join_otaa::<TapeRng, 64>(&mut rng, cred, &mut buf);
    match &m.state {
        crate::mac::State::Otaa(o) => {
            let (a2, d2, k2) = cred_bytes(&o.network_credentials);
            assert!(a2 == appeui && d2 == deveui, "C11 the pending join holds the JoinEUI / DevEUI it was started with");
            assert!(k2 == appkey, "C11 the pending join holds the AppKey it was started with (JoinAccept authentication and session-key derivation use it), whatever an earlier attempt used");
            assert!(o.dev_nonce.value() == nonce, "C11 the DevNonce put on the air is the one remembered for the key derivation");
        }
        _ => assert!(false, "C11 join_otaa leaves the MAC waiting for the JoinAccept"),
    }
    let out = buf.as_ref_for_read();
    let g = unsafe { &*(&raw const JG) };
    assert!(out.len() == 23 && out[0] == 0x00 && out[1..9] == appeui && out[9..17] == deveui && out[17] == nonce as u8 && out[18] == (nonce >> 8) as u8, "C11 the JoinRequest on the air carries the identifiers given to this join and the fresh DevNonce");
    assert!(g.mic_calls == 1 && g.mic_data_len == 19 && out[19..23] == mic, "C11 one MIC over MHDR..DevNonce, appended");
    assert!(unsafe { CRYPTO_NEW_CALLS } >= 1 && unsafe { CRYPTO_NEW_KEYS[CRYPTO_NEW_CALLS.min(2) - 1] } == appkey, "C11 the JoinRequest MIC is computed under the AppKey given to this join");
    assert!(m.region.frequency_valid(tx.rf.frequency) && tx.pw as i32 <= max_power as i32, "C09 the JoinRequest goes out in band, within the radio's power");
    kani::cover!(prev == 2, "verif-reached: earlier attempt pending");
    kani::cover!(prev == 1, "verif-reached: re-join from a session");
}
// @verif props=C11,C04 obligation=Mac::join_otaa.contract[EU868] label=proved-complete tier=quick bound="any earlier MAC state (unjoined / joined with any session / join pending with credentials equal or different field by field), any credentials, any MAC configuration; fresh channel plan"
#[kani::proof]
#[kani::stub(lorawan::default_crypto::DefaultCrypto::new, stub_crypto_new_rec)]
#[kani::stub(<lorawan::default_crypto::DefaultCrypto as lorawan::keys::Crypto>::calculate_mic, stub_calculate_mic_join)]
#[kani::unwind(74)]
fn c11_mac_join_otaa_eu868() { mac_join_otaa_contract(5) }
// @verif props=C11,C04 obligation=Mac::join_otaa.contract[US915] label=proved-complete tier=quick bound="as EU868, fixed channel plan (join channel drawn from the unexplored set)"
#[kani::proof]
#[kani::stub(lorawan::default_crypto::DefaultCrypto::new, stub_crypto_new_rec)]
#[kani::stub(<lorawan::default_crypto::DefaultCrypto as lorawan::keys::Crypto>::calculate_mic, stub_calculate_mic_join)]
#[kani::unwind(74)]
fn c11_mac_join_otaa_us915() { mac_join_otaa_contract(8) }
