// Contracts + harnesses for lora-phy/src/lorawan_radio.rs (C17 ms->symbols conversion; C18 adapter hands the MAC exactly the bytes)
// Built with the `lorawan-radio` feature; lorawan-device's async front-end traits are de-async'd too (Y1).
// @inject file=lora-phy/src/lorawan_radio.rs mod=verif_lorawan_radio
// @job pkg=lora-phy features=lorawan-radio zflags=function-contracts,stubbing
// @requires common_tape phy_common phy_lora
// @deasync lora-phy/src/lorawan_radio.rs lorawan-device/src/async_device/mod.rs lorawan-device/src/async_device/radio.rs
// @subst lora-phy/Cargo.toml <<default-features = false, version = "0.12", optional = true }>> => <<default-features = false, features = ["region-eu868"], version = "0.12", optional = true }>>
// @subst lorawan-device/src/async_device/mod.rs "#[cfg(test)]" => "#[cfg(all(test, not(kani)))]"
use super::*;
use crate::verif_tape as tape;
use lora_modulation::{Bandwidth, CodingRate, SpreadingFactor};

pub(crate) const SFS: [SpreadingFactor; 8] = [SpreadingFactor::_5, SpreadingFactor::_6, SpreadingFactor::_7, SpreadingFactor::_8, SpreadingFactor::_9, SpreadingFactor::_10, SpreadingFactor::_11, SpreadingFactor::_12];
pub(crate) const BWS: [Bandwidth; 10] = [Bandwidth::_7KHz, Bandwidth::_10KHz, Bandwidth::_15KHz, Bandwidth::_20KHz, Bandwidth::_31KHz, Bandwidth::_41KHz, Bandwidth::_62KHz, Bandwidth::_125KHz, Bandwidth::_250KHz, Bandwidth::_500KHz];

/// KF-C17-1 (open finding): the margin is converted with a floor, so up to a quarter symbol is lost
pub(crate) fn kf_short_by_quarter(t_us: u64, ms: u32) -> bool { (ms as u64 * 1000) % t_us > (3 * t_us) / 4 }

fn rxmode_from_contract(si: usize, witness: bool) {
    tape::init();
    let ms = tape::u32();
    kani::assume(ms <= 1000);
    let mut b = 0;
    while b < 10 {
        let bb = BaseBandModulationParams::new(SFS[si], BWS[b], CodingRate::_4_5);
        let t = ((1u64 << SFS[si].factor()) * 1_000_000) / BWS[b].hz() as u64;     // symbol time in us (truncated, as the crate documents)
        if kf_short_by_quarter(t, ms) == witness {
            match RxMode::from(LorawanRxMode::Single { ms }, bb) {
                RxMode::Single(n) => {
                    // preamble detection needs 12.25 symbols; the requested extra listening time comes on top
                    assert!(4 * n as u64 * t >= 49 * t + 4000 * ms as u64, "C17 ms -> symbols covers the 12.25-symbol preamble plus the requested margin");
                    assert!(n as u64 <= 13 + (ms as u64 * 1000) / t + 1, "and does not overshoot by more than a symbol");
                }
                _ => assert!(false, "single-shot stays single-shot"),
            }
        }
        b += 1;
    }
    assert!(matches!(RxMode::from(LorawanRxMode::Continuous, BaseBandModulationParams::new(SFS[si], BWS[0], CodingRate::_4_5)), RxMode::Continuous), "continuous stays continuous");
    kani::cover!(true, "verif-reached: end");
}
// @verif props=C17 obligation=lorawan_radio::RxMode::from.contract[SF5] label=proved-complete tier=quick bound="all 10 bandwidths x margin 0..1000 ms"
#[kani::proof]
#[kani::unwind(12)]
fn c17_rxmode_from_sf5() { rxmode_from_contract(0, false) }
// @verif props=C17 obligation=lorawan_radio::RxMode::from.contract[SF6] label=proved-complete tier=quick bound="all 10 bandwidths x margin 0..1000 ms"
#[kani::proof]
#[kani::unwind(12)]
fn c17_rxmode_from_sf6() { rxmode_from_contract(1, false) }
// @verif props=C17 obligation=lorawan_radio::RxMode::from.contract[SF7] label=proved-complete tier=quick bound="all 10 bandwidths x margin 0..1000 ms"
#[kani::proof]
#[kani::unwind(12)]
fn c17_rxmode_from_sf7() { rxmode_from_contract(2, false) }
// @verif props=C17 obligation=lorawan_radio::RxMode::from.contract[SF8] label=proved-complete tier=quick bound="all 10 bandwidths x margin 0..1000 ms"
#[kani::proof]
#[kani::unwind(12)]
fn c17_rxmode_from_sf8() { rxmode_from_contract(3, false) }
// @verif props=C17 obligation=lorawan_radio::RxMode::from.contract[SF9] label=proved-complete tier=quick bound="all 10 bandwidths x margin 0..1000 ms"
#[kani::proof]
#[kani::unwind(12)]
fn c17_rxmode_from_sf9() { rxmode_from_contract(4, false) }
// @verif props=C17 obligation=lorawan_radio::RxMode::from.contract[SF10] label=proved-complete tier=quick bound="all 10 bandwidths x margin 0..1000 ms"
#[kani::proof]
#[kani::unwind(12)]
fn c17_rxmode_from_sf10() { rxmode_from_contract(5, false) }
// @verif props=C17 obligation=lorawan_radio::RxMode::from.contract[SF11] label=proved-complete tier=quick bound="all 10 bandwidths x margin 0..1000 ms"
#[kani::proof]
#[kani::unwind(12)]
fn c17_rxmode_from_sf11() { rxmode_from_contract(6, false) }
// @verif props=C17 obligation=lorawan_radio::RxMode::from.contract[SF12] label=proved-complete tier=quick bound="all 10 bandwidths x margin 0..1000 ms"
#[kani::proof]
#[kani::unwind(12)]
fn c17_rxmode_from_sf12() { rxmode_from_contract(7, false) }
// witness of KF-C17-1, expected to FAIL while the finding is open
// @verif props=C17 obligation=lorawan_radio::RxMode::from.contract[SF7,KF-C17-1] label=proved-complete tier=quick finding=KF-C17-1
#[kani::proof]
#[kani::unwind(12)]
fn c17_rxmode_from_kf1_witness() { rxmode_from_contract(2, true) }

// ================================================================================================ C18: the LoRaWAN adapter hands the MAC exactly those bytes
// LorawanRadio::{rx_single, rx_continuous} over LoRa::rx over the abstract chip of phy_lora.rs (whose get_rx_payload contract-stub
// is the contract the SX126x / SX127x / LR11xx get_rx_payload harnesses discharge: Ok(n) => n <= buf.len(), buf[..n] written, rest untouched).
use crate::verif_lora::{any_lora, pp, LAST_LEN, LAST_RSSI, LAST_SNR};
use crate::RadioMode;
fn adapter_rx(single: bool) {
    tape::init();
    let l = any_lora();
    kani::assume(matches!(l.radio_mode, RadioMode::Receive(_)));
    let mut r: LorawanRadio<crate::verif_lora::Chip, crate::verif_phy::MockDelay, 14> = LorawanRadio::from(l);
    let has_params = tape::boolean();
    if has_params { r.rx_pkt_params = Some(pp()); }
    let mut buf = [0xA5u8; 16];
    let (len, quality, timeout, err) = if single {
        match r.rx_single(&mut buf) { Ok(RxStatus::Rx(n, q)) => (Some(n), Some(q), false, false), Ok(RxStatus::RxTimeout) => (None, None, true, false), Err(e) => { assert!(has_params || matches!(e, Error::NoRxParams), "no packet parameters: refused"); (None, None, false, true) } }
    } else {
        match r.rx_continuous(&mut buf) { Ok((n, q)) => (Some(n), Some(q), false, false), Err(e) => { assert!(has_params || matches!(e, Error::NoRxParams), "no packet parameters: refused"); (None, None, false, true) } }
    };
    if !has_params { assert!(err && r.lora.radio_kind.cmds == 0, "C18 without a prepared reception nothing is fetched"); }
    if let (Some(n), Some(q)) = (len, quality) {
        assert!(n <= 16 && n == unsafe { LAST_LEN } as usize, "C18 the adapter reports exactly the length the chip driver returned, which fits the caller's buffer");
        let mut i = 0;
        while i < 16 { assert!(buf[i] == (if i < n { 0x5A } else { 0xA5 }), "C18 exactly those bytes are in the caller's buffer, the rest is untouched"); i += 1; }
        assert!(q.rssi() == unsafe { LAST_RSSI } && q.snr() as i16 == unsafe { LAST_SNR }, "C17/C18 the reported quality is the driver's packet status");
        kani::cover!(n == 16, "verif-reached: full buffer");
        kani::cover!(n == 0, "verif-reached: empty packet");
    }
    kani::cover!(timeout, "verif-maybe: window timed out");
    kani::cover!(err && has_params, "verif-reached: radio error surfaces");
}
// @verif props=C18 obligation=LorawanRadio::rx_single.hands_over_driver_bytes label=bounded(3-polls) tier=quick bound="caller buffer of 16 bytes, any reported length, at most 2 inconclusive IRQ polls; sequential executions (Y1)"
#[kani::proof]
#[kani::unwind(18)]
fn c18_lorawan_radio_rx_single() { adapter_rx(true) }
// @verif props=C18 obligation=LorawanRadio::rx_continuous.hands_over_driver_bytes label=bounded(3-polls) tier=quick bound="caller buffer of 16 bytes, any reported length, at most 2 inconclusive IRQ polls; sequential executions (Y1)"
#[kani::proof]
#[kani::unwind(18)]
fn c18_lorawan_radio_rx_continuous() { adapter_rx(false) }

// ================================================================================================ C17/C09/C10: the adapter programmes what the MAC asked for
// LorawanRadio::{tx, setup_rx} over LoRa over the abstract chip: the TxConfig / RxConfig the LoRaWAN stack computed (C09: channel
// frequency, data rate, power; C10: window frequency, data rate, mode) is what reaches the chip driver, from any driver/chip state.
// @verif props=C17,C09 obligation=LorawanRadio::tx.programmes_tx_config label=bounded(3-polls) tier=quick bound="any consistent (driver, abstract chip) state, every SF x BW, any frequency and power, 3-byte frame, one fault at any command position, at most 2 inconclusive IRQ polls; sequential executions (Y1)"
#[kani::proof]
#[kani::unwind(20)]
fn c17_lorawan_radio_tx() {
    tape::init();
    let l = any_lora();
    let mut r: LorawanRadio<crate::verif_lora::Chip, crate::verif_phy::MockDelay, 14> = LorawanRadio::from(l);
    let (sf, bw) = (SFS[tape::below(8)], BWS[tape::below(10)]);
    let cfg = TxConfig { pw: tape::i8(), rf: lorawan_device::async_device::radio::RfConfig { frequency: tape::u32(), bb: BaseBandModulationParams::new(sf, bw, CodingRate::_4_5), max_payload_len: 255 } };
    let data = [7u8, 8, 9];
    let res = r.tx(cfg, &data);
    let c = &r.lora.radio_kind;
    if res.is_ok() {
        assert!(c.started_freq == cfg.rf.frequency && c.freq == cfg.rf.frequency, "C09/C17 the uplink goes out on the frequency of the TxConfig");
        assert!(c.power == cfg.pw as i32, "C09/C17 with the power of the TxConfig");
        assert!(c.mod_sf == Some(sf) && c.mod_bw == Some(bw) && c.mod_freq == cfg.rf.frequency, "C09 with the spreading factor and bandwidth of the TxConfig");
        assert!(c.payload_len == 3 && c.pkt_len == 3, "the whole frame, and nothing else, is transmitted");
    }
    kani::cover!(res.is_ok(), "verif-reached: transmitted");
    kani::cover!(res.is_err(), "verif-reached: radio error surfaces");
}
// @verif props=C17,C10 obligation=LorawanRadio::setup_rx.programmes_rx_config label=proved-complete tier=quick bound="any consistent (driver, abstract chip) state, every SF x BW, any frequency, continuous / single with margin 0..1000 ms, one fault at any command position; sequential executions (Y1)"
#[kani::proof]
#[kani::unwind(20)]
fn c17_lorawan_radio_setup_rx() {
    tape::init();
    let l = any_lora();
    let mut r: LorawanRadio<crate::verif_lora::Chip, crate::verif_phy::MockDelay, 14> = LorawanRadio::from(l);
    let (sf, bw) = (SFS[tape::below(8)], BWS[tape::below(10)]);
    let bb = BaseBandModulationParams::new(sf, bw, CodingRate::_4_5);
    let single = tape::boolean();
    let ms = tape::u32();
    kani::assume(ms <= 1000);
    let mode = if single { LorawanRxMode::Single { ms } } else { LorawanRxMode::Continuous };
    let cfg = RxConfig { rf: lorawan_device::async_device::radio::RfConfig { frequency: tape::u32(), bb, max_payload_len: 255 }, mode };
    let res = r.setup_rx(cfg);
    if res.is_ok() {
        let c = &r.lora.radio_kind;
        assert!(c.freq == cfg.rf.frequency && c.mod_sf == Some(sf) && c.mod_bw == Some(bw) && c.mod_freq == cfg.rf.frequency, "C10/C17 the window is programmed with the frequency, spreading factor and bandwidth of the RxConfig");
        assert!(r.rx_pkt_params.is_some(), "packet parameters remembered for the fetch");
        assert!(r.lora.radio_mode == RadioMode::Receive(RxMode::from(mode, bb)), "C17 the receive mode in force is the conversion of the requested one (RxMode::from, whose contract is discharged above)");
        match r.lora.radio_mode { RadioMode::Receive(RxMode::Single(_)) => assert!(single, "single stays single"), RadioMode::Receive(RxMode::Continuous) => assert!(!single, "continuous stays continuous"), _ => assert!(false, "a LoRaWAN window is single or continuous") }
    }
    kani::cover!(res.is_ok() && single, "verif-reached: single window programmed");
    kani::cover!(res.is_ok() && !single, "verif-reached: continuous window programmed");
}
