// C20 (the part a contract can reach): the REAL serde implementations of the persisted session -- the derive output of
// `Session`, `NwkSKey`/`AppSKey`/`AES128`, `DevAddr` and the hand-written `impl Serialize/Deserialize for Uplink`
// (lorawan-device/src/mac/uplink/serde.rs) -- compiled by Kani with the `serde` feature, against a CONTRACT-STUB FORMAT.
//
// The format (`Ser` / `De` below) is the serde data model made executable: a flat tape of events (struct(n), key, bool,
// u8.., tuple(n), newtype, none/some).  It is self-describing like serde_json (typed `deserialize_*` hints are forwarded to
// `deserialize_any`; structs arrive as maps; trailing elements are an error) and lossless for the data model by
// construction.  A field is identified by its ordinal in its struct (serde derive's field visitors take names and ordinals
// alike); that the names the real impls use are the table's names is an asserted obligation, not control flow (CBMC
// does not constant-fold string comparison: with names as control flow the deserialiser's symbolic execution diverged).
// What is PROVED: for every session value, `Session::deserialize(events(Session::serialize(s)))` is `Ok(s')` with every
// field of s' equal to s (incl. `fcnt_down == None`, counters at any value, any 0..=15 pending bytes, owed ACK); the
// document the hand-written Uplink serialiser emits is exactly {confirmed, pending_len, pending_data (15 bytes, zero
// padded)}; the hand-written Uplink deserialiser accepts a document iff its three fields are present exactly once (any
// order), the data array has 15 elements and pending_len <= 15 -- restoring exactly the persisted bytes -- and refuses
// everything else with an error, never a panic (pending_len 16..=255, missing / duplicated field, short array); a session
// document with any pending_len is accepted iff pending_len <= 15.
// What is NOT covered: documents whose scalar KINDS differ from the serialised ones (a string where a number is
// expected, ...): with symbolic kinds the symbolic execution of serde's visitor dispatch did not finish in 25 min.
// What is ASSUMED (A-serde): serde_json (text layer, number parsing/printing, String) maps this data model to text and
// back without loss -- serde_json's own contract; serde's derive macro output is the code Kani compiled (it is the real
// expansion).  "A restored device emits the same next uplink and rejects the same replays" follows from field equality and
// determinism of the MAC in (state, inputs) -- meta step, as in C07.
// @inject file=lorawan-device/src/mac/session.rs mod=verif_persist
// @job pkg=lorawan-device features=serde zflags=function-contracts,stubbing
// @requires common_tape dev_uplink dev_region dev_session
#![allow(dead_code)]
use super::*;
use crate::mac::uplink::verif_uplink::*;
use crate::mac::uplink::Uplink;
use crate::verif_tape as tape;
use serde::{Serialize, Deserialize};
use serde::ser::{self, SerializeSeq, SerializeTuple, SerializeTupleStruct, SerializeTupleVariant, SerializeMap, SerializeStruct, SerializeStructVariant};
use serde::de::{self, Visitor, DeserializeSeed, MapAccess, SeqAccess};

pub(crate) const H: usize = 56;
pub(crate) const EVN: usize = 2 * H;
#[derive(Clone, Copy, Debug, PartialEq)]
pub(crate) enum Ev { Nil, Bool(bool), U8(u8), U16(u16), U32(u32), U64(u64), I64(i64), Key(&'static str), Struct(usize), Tuple(usize), Newtype, None, Some }
/// field names of the persisted structures (the last one is not a field of anything: an unknown key)
pub(crate) const KEYS: [&str; 11] = ["uplink", "confirmed", "nwkskey", "appskey", "devaddr", "fcnt_up", "fcnt_down", "adr_ack_cnt", "pending_len", "pending_data", "frequency"];
/// the event tape, stored as kind/value arrays in two halves of 56 entries: CBMC keeps arrays of up to 64 elements
/// field-sensitive, so with concrete positions the event kinds stay constants and deserialisation does not branch on them
pub(crate) struct Doc { k0: [u8; H], k1: [u8; H], v0: [u64; H], v1: [u64; H], pub n: usize, pub overflow: bool, pub names_ok: bool }
impl Doc {
    pub(crate) fn new() -> Self { Doc { k0: [0; H], k1: [0; H], v0: [0; H], v1: [0; H], n: 0, overflow: false, names_ok: true } }
    fn enc(e: Ev) -> (u8, u64) {
        match e { Ev::Nil => (0, 0), Ev::Bool(b) => (1, b as u64), Ev::U8(x) => (2, x as u64), Ev::U16(x) => (3, x as u64), Ev::U32(x) => (4, x as u64), Ev::U64(x) => (5, x),
            Ev::I64(x) => (6, x as u64), Ev::Key(_) => (7, 255),
            Ev::Struct(n) => (8, n as u64), Ev::Tuple(n) => (9, n as u64), Ev::Newtype => (10, 0), Ev::None => (11, 0), Ev::Some => (12, 0) }
    }
    pub(crate) fn set(&mut self, i: usize, e: Ev) { let (k, v) = Self::enc(e); if k == 7 && v == 255 { self.overflow = true; } if i < H { self.k0[i] = k; self.v0[i] = v; } else { self.k1[i - H] = k; self.v1[i - H] = v; } }
    pub(crate) fn get(&self, i: usize) -> Ev {
        let (k, v) = if i < H { (self.k0[i], self.v0[i]) } else { (self.k1[i - H], self.v1[i - H]) };
        match k { 1 => Ev::Bool(v != 0), 2 => Ev::U8(v as u8), 3 => Ev::U16(v as u16), 4 => Ev::U32(v as u32), 5 => Ev::U64(v), 6 => Ev::I64(v as i64),
            7 => Ev::Key(KEYS[(v as usize) % KEYS.len()]), 8 => Ev::Struct(v as usize), 9 => Ev::Tuple(v as usize), 10 => Ev::Newtype, 11 => Ev::None, 12 => Ev::Some, _ => Ev::Nil }
    }
    pub(crate) fn push_key(&mut self, idx: usize) { if self.n < EVN { let n = self.n; if n < H { self.k0[n] = 7; self.v0[n] = idx as u64; } else { self.k1[n - H] = 7; self.v1[n - H] = idx as u64; } self.n += 1; } else { self.overflow = true; } }
    pub(crate) fn key_at(&self, i: usize) -> Option<usize> { let (k, v) = if i < H { (self.k0[i], self.v0[i]) } else { (self.k1[i - H], self.v1[i - H]) }; if k == 7 { Some(v as usize) } else { None } }
    pub(crate) fn push(&mut self, e: Ev) { if self.n < EVN { let n = self.n; self.set(n, e); self.n += 1; } else { self.overflow = true; } }
}
/// error of the format; the message is dropped (no formatting machinery under the verifier)
#[derive(Debug)] pub(crate) struct FErr(pub u8);
impl core::fmt::Display for FErr { fn fmt(&self, _f: &mut core::fmt::Formatter<'_>) -> core::fmt::Result { Ok(()) } }
impl ser::StdError for FErr {}
impl ser::Error for FErr { fn custom<T: core::fmt::Display>(_msg: T) -> Self { FErr(10) } }
impl de::Error for FErr { fn custom<T: core::fmt::Display>(_msg: T) -> Self { FErr(11) } }

// ------------------------------------------------------------------------------------------------ serialiser half
pub(crate) struct Ser<'a>(pub &'a mut Doc);
/// compound serialiser; for structs: (number of fields, ordinal of the next field) -- a field is identified by its ordinal in
/// its struct (table `key_index`), and its NAME is checked against the table by an assertion (`names_ok`), so that no control
/// flow of the format depends on string comparison (which CBMC does not constant-fold)
pub(crate) struct Comp<'a>(&'a mut Doc, usize, usize);
/// index into KEYS of field `j` of a struct with `nfields` fields: Session has 8 (KEYS[0..8] in order), Uplink 3
pub(crate) fn key_index(nfields: usize, j: usize) -> usize { if nfields == 3 { [1usize, 8, 9][j % 3] } else { j % 8 } }
impl<'a> ser::Serializer for Ser<'a> {
    type Ok = (); type Error = FErr;
    type SerializeSeq = Comp<'a>; type SerializeTuple = Comp<'a>; type SerializeTupleStruct = Comp<'a>; type SerializeTupleVariant = Comp<'a>;
    type SerializeMap = Comp<'a>; type SerializeStruct = Comp<'a>; type SerializeStructVariant = Comp<'a>;
    fn serialize_bool(self, v: bool) -> Result<(), FErr> { self.0.push(Ev::Bool(v)); Ok(()) }
    fn serialize_i8(self, v: i8) -> Result<(), FErr> { self.0.push(Ev::I64(v as i64)); Ok(()) }
    fn serialize_i16(self, v: i16) -> Result<(), FErr> { self.0.push(Ev::I64(v as i64)); Ok(()) }
    fn serialize_i32(self, v: i32) -> Result<(), FErr> { self.0.push(Ev::I64(v as i64)); Ok(()) }
    fn serialize_i64(self, v: i64) -> Result<(), FErr> { self.0.push(Ev::I64(v)); Ok(()) }
    fn serialize_u8(self, v: u8) -> Result<(), FErr> { self.0.push(Ev::U8(v)); Ok(()) }
    fn serialize_u16(self, v: u16) -> Result<(), FErr> { self.0.push(Ev::U16(v)); Ok(()) }
    fn serialize_u32(self, v: u32) -> Result<(), FErr> { self.0.push(Ev::U32(v)); Ok(()) }
    fn serialize_u64(self, v: u64) -> Result<(), FErr> { self.0.push(Ev::U64(v)); Ok(()) }
    fn serialize_f32(self, _v: f32) -> Result<(), FErr> { Err(FErr(1)) }
    fn serialize_f64(self, _v: f64) -> Result<(), FErr> { Err(FErr(1)) }
    fn serialize_char(self, _v: char) -> Result<(), FErr> { Err(FErr(1)) }
    fn serialize_str(self, _v: &str) -> Result<(), FErr> { Err(FErr(1)) }
    fn serialize_bytes(self, _v: &[u8]) -> Result<(), FErr> { Err(FErr(1)) }
    fn serialize_none(self) -> Result<(), FErr> { self.0.push(Ev::None); Ok(()) }
    fn serialize_some<T: ?Sized + Serialize>(self, v: &T) -> Result<(), FErr> { self.0.push(Ev::Some); v.serialize(self) }
    fn serialize_unit(self) -> Result<(), FErr> { Err(FErr(1)) }
    fn serialize_unit_struct(self, _n: &'static str) -> Result<(), FErr> { Err(FErr(1)) }
    fn serialize_unit_variant(self, _n: &'static str, _i: u32, _v: &'static str) -> Result<(), FErr> { Err(FErr(1)) }
    fn serialize_newtype_struct<T: ?Sized + Serialize>(self, _n: &'static str, v: &T) -> Result<(), FErr> { self.0.push(Ev::Newtype); v.serialize(self) }
    fn serialize_newtype_variant<T: ?Sized + Serialize>(self, _n: &'static str, _i: u32, _v: &'static str, _x: &T) -> Result<(), FErr> { Err(FErr(1)) }
    fn serialize_seq(self, len: Option<usize>) -> Result<Comp<'a>, FErr> { match len { Some(n) => { self.0.push(Ev::Tuple(n)); Ok(Comp(self.0, 0, 0)) } None => Err(FErr(1)) } }
    fn serialize_tuple(self, len: usize) -> Result<Comp<'a>, FErr> { self.0.push(Ev::Tuple(len)); Ok(Comp(self.0, 0, 0)) }
    fn serialize_tuple_struct(self, _n: &'static str, _len: usize) -> Result<Comp<'a>, FErr> { Err(FErr(1)) }
    fn serialize_tuple_variant(self, _n: &'static str, _i: u32, _v: &'static str, _len: usize) -> Result<Comp<'a>, FErr> { Err(FErr(1)) }
    fn serialize_map(self, _len: Option<usize>) -> Result<Comp<'a>, FErr> { Err(FErr(1)) }
    fn serialize_struct(self, _n: &'static str, len: usize) -> Result<Comp<'a>, FErr> { if len != 3 && len != 8 { return Err(FErr(1)); } self.0.push(Ev::Struct(len)); Ok(Comp(self.0, len, 0)) }
    fn serialize_struct_variant(self, _n: &'static str, _i: u32, _v: &'static str, _len: usize) -> Result<Comp<'a>, FErr> { Err(FErr(1)) }
    fn collect_str<T: ?Sized + core::fmt::Display>(self, _v: &T) -> Result<(), FErr> { Err(FErr(1)) }
    fn is_human_readable(&self) -> bool { true }
}
impl<'a> SerializeSeq for Comp<'a> { type Ok = (); type Error = FErr;
    fn serialize_element<T: ?Sized + Serialize>(&mut self, v: &T) -> Result<(), FErr> { v.serialize(Ser(&mut *self.0)) } fn end(self) -> Result<(), FErr> { Ok(()) } }
impl<'a> SerializeTuple for Comp<'a> { type Ok = (); type Error = FErr;
    fn serialize_element<T: ?Sized + Serialize>(&mut self, v: &T) -> Result<(), FErr> { v.serialize(Ser(&mut *self.0)) } fn end(self) -> Result<(), FErr> { Ok(()) } }
impl<'a> SerializeTupleStruct for Comp<'a> { type Ok = (); type Error = FErr;
    fn serialize_field<T: ?Sized + Serialize>(&mut self, v: &T) -> Result<(), FErr> { v.serialize(Ser(&mut *self.0)) } fn end(self) -> Result<(), FErr> { Ok(()) } }
impl<'a> SerializeTupleVariant for Comp<'a> { type Ok = (); type Error = FErr;
    fn serialize_field<T: ?Sized + Serialize>(&mut self, v: &T) -> Result<(), FErr> { v.serialize(Ser(&mut *self.0)) } fn end(self) -> Result<(), FErr> { Ok(()) } }
impl<'a> SerializeMap for Comp<'a> { type Ok = (); type Error = FErr;
    fn serialize_key<T: ?Sized + Serialize>(&mut self, _k: &T) -> Result<(), FErr> { Err(FErr(1)) }
    fn serialize_value<T: ?Sized + Serialize>(&mut self, _v: &T) -> Result<(), FErr> { Err(FErr(1)) } fn end(self) -> Result<(), FErr> { Ok(()) } }
impl<'a> SerializeStruct for Comp<'a> { type Ok = (); type Error = FErr;
    fn serialize_field<T: ?Sized + Serialize>(&mut self, k: &'static str, v: &T) -> Result<(), FErr> {
        let idx = key_index(self.1, self.2); self.2 += 1;
        if KEYS[idx] != k { self.0.names_ok = false; }
        self.0.push_key(idx); v.serialize(Ser(&mut *self.0)) }
    fn end(self) -> Result<(), FErr> { Ok(()) } }
impl<'a> SerializeStructVariant for Comp<'a> { type Ok = (); type Error = FErr;
    fn serialize_field<T: ?Sized + Serialize>(&mut self, _k: &'static str, _v: &T) -> Result<(), FErr> { Err(FErr(1)) } fn end(self) -> Result<(), FErr> { Ok(()) } }

// ------------------------------------------------------------------------------------------------ deserialiser half
pub(crate) struct De<'de> { pub doc: &'de Doc, pub pos: usize, pub nfields: usize }
struct MapAcc<'a, 'de> { de: &'a mut De<'de>, left: &'a mut usize }
struct SeqAcc<'a, 'de> { de: &'a mut De<'de>, left: &'a mut usize }
impl<'de, 'a> de::Deserializer<'de> for &'a mut De<'de> {
    type Error = FErr;
    fn deserialize_any<V: Visitor<'de>>(self, v: V) -> Result<V::Value, FErr> {
        if self.pos >= self.doc.n || self.pos >= EVN { return Err(FErr(2)); }
        let e = self.doc.get(self.pos);
        self.pos += 1;
        match e {
            Ev::Bool(b) => v.visit_bool(b),
            Ev::U8(x) => v.visit_u8(x), Ev::U16(x) => v.visit_u16(x), Ev::U32(x) => v.visit_u32(x), Ev::U64(x) => v.visit_u64(x), Ev::I64(x) => v.visit_i64(x),
            Ev::Key(_) => Err(FErr(5)),   // keys are only read through deserialize_identifier
            Ev::Struct(n) => { let mut left = n; let r = v.visit_map(MapAcc { de: &mut *self, left: &mut left })?; if left != 0 { return Err(FErr(4)); } Ok(r) }
            Ev::Tuple(n) => { let mut left = n; let r = v.visit_seq(SeqAcc { de: &mut *self, left: &mut left })?; if left != 0 { return Err(FErr(4)); } Ok(r) }
            Ev::Newtype => v.visit_newtype_struct(self),
            Ev::None => v.visit_none(),
            Ev::Some => v.visit_some(self),
            Ev::Nil => Err(FErr(3)),
        }
    }
    /// a struct is a map; its field count is the context in which the keys inside are resolved
    fn deserialize_struct<V: Visitor<'de>>(self, _name: &'static str, fields: &'static [&'static str], v: V) -> Result<V::Value, FErr> {
        let outer = self.nfields;
        self.nfields = fields.len();
        // the stub format's key table agrees with the names the (derived / hand-written) Deserialize impl expects
        let mut j = 0; while j < 8 { if j < fields.len() && (fields.len() == 3 || fields.len() == 8) { assert!(fields[j] == KEYS[key_index(fields.len(), j)], "C20 field names of the persisted structure"); } j += 1; }
        let r = (&mut *self).deserialize_any(v);
        self.nfields = outer;
        r
    }
    /// a key is handed to the field visitor as the field's ordinal in its struct (serde derive accepts names and ordinals alike)
    fn deserialize_identifier<V: Visitor<'de>>(self, v: V) -> Result<V::Value, FErr> {
        if self.pos >= self.doc.n || self.pos >= EVN { return Err(FErr(2)); }
        let k = match self.doc.key_at(self.pos) { Some(k) => k, None => return Err(FErr(5)) };
        self.pos += 1;
        let n = self.nfields;
        let mut ord = 99u64; let mut j = 0; while j < 8 { if j < n && (n == 3 || n == 8) && key_index(n, j) == k { ord = j as u64; } j += 1; }
        v.visit_u64(ord)
    }
    serde::forward_to_deserialize_any! { bool i8 i16 i32 i64 i128 u8 u16 u32 u64 u128 f32 f64 char str string bytes byte_buf option unit unit_struct newtype_struct seq tuple tuple_struct map enum ignored_any }
    fn is_human_readable(&self) -> bool { true }
}
impl<'a, 'de> MapAccess<'de> for MapAcc<'a, 'de> {
    type Error = FErr;
    fn next_key_seed<K: DeserializeSeed<'de>>(&mut self, seed: K) -> Result<Option<K::Value>, FErr> {
        if *self.left == 0 { return Ok(None); }
        *self.left -= 1;
        // a key must be a key event
        if self.de.pos >= self.de.doc.n || self.de.pos >= EVN || self.de.doc.key_at(self.de.pos).is_none() { return Err(FErr(5)); }
        seed.deserialize(&mut *self.de).map(Some)
    }
    fn next_value_seed<T: DeserializeSeed<'de>>(&mut self, seed: T) -> Result<T::Value, FErr> { seed.deserialize(&mut *self.de) }
}
impl<'a, 'de> SeqAccess<'de> for SeqAcc<'a, 'de> {
    type Error = FErr;
    fn next_element_seed<T: DeserializeSeed<'de>>(&mut self, seed: T) -> Result<Option<T::Value>, FErr> {
        if *self.left == 0 { return Ok(None); }
        *self.left -= 1;
        seed.deserialize(&mut *self.de).map(Some)
    }
    fn size_hint(&self) -> Option<usize> { Some(*self.left) }
}

// ------------------------------------------------------------------------------------------------ harnesses
/// `has_down` is CONCRETE per harness: it decides the shape of the document (None: 1 event, Some: 2)
fn any_session_full(has_down: bool) -> Session {
    Session {
        uplink: any_uplink(),
        confirmed: tape::boolean(),
        nwkskey: NwkSKey::from(tape::arr::<16>()),
        appskey: AppSKey::from(tape::arr::<16>()),
        devaddr: DevAddr::from_wire_bytes(tape::arr()),
        fcnt_up: tape::u32(),
        fcnt_down: if has_down { Some(tape::u32()) } else { None },
        adr_ack_cnt: tape::u32(),
    }
}
fn session_eq_full(a: &Session, b: &Session) -> bool {
    uplink_eq(&a.uplink, &b.uplink) && a.confirmed == b.confirmed && a.nwkskey.inner().0 == b.nwkskey.inner().0
        && a.appskey.inner().0 == b.appskey.inner().0 && a.devaddr == b.devaddr && a.fcnt_up == b.fcnt_up
        && a.fcnt_down == b.fcnt_down && a.adr_ack_cnt == b.adr_ack_cnt
}

fn session_roundtrip(has_down: bool) {
    tape::init();
    let s = any_session_full(has_down);
    let mut doc = Doc::new();
    let r = s.serialize(Ser(&mut doc));
    assert!(r.is_ok() && !doc.overflow && doc.names_ok, "C20 a session always serialises, under the field names of the persisted format");
    let mut de = De { doc: &doc, pos: 0, nfields: 0 };
    let back = Session::deserialize(&mut de);
    match back {
        Ok(b) => {
            assert!(session_eq_full(&s, &b), "C20 a persisted session restores equal in every field (keys, address, both counters incl. 'no downlink yet', ADR counter, pending MAC answers, owed ACK)");
            assert!(de.pos == doc.n, "C20 the whole document is consumed");
            kani::cover!(uplink_pending(&s.uplink).len() == 15 && s.fcnt_up == u32::MAX, "verif-reached: full answer queue, counter at the boundary");
            kani::cover!(uplink_pending(&s.uplink).is_empty(), "verif-reached: empty answer queue");
        }
        Err(_) => { assert!(false, "C20 what a session serialises to is accepted back"); }
    }
}
// @verif props=C20 obligation=Session::serialize+deserialize.roundtrip[fcnt_down=Some] label=proved-complete tier=quick bound="every Session value with a downlink counter (any keys, address, counters, 0..=15 pending bytes, flags); format = serde data model contract-stub (A-serde: serde_json text layer assumed lossless)"
#[kani::proof]
#[kani::unwind(20)]
fn c20_session_roundtrip_some() { session_roundtrip(true) }
// @verif props=C20 obligation=Session::serialize+deserialize.roundtrip[fcnt_down=None] label=proved-complete tier=quick bound="every Session value that has seen no downlink yet; as above"
#[kani::proof]
#[kani::unwind(20)]
fn c20_session_roundtrip_none() { session_roundtrip(false) }

// @verif props=C20 obligation=Uplink::serialize.document label=proved-complete tier=quick bound="every Uplink value; the hand-written serialiser against the recording format"
#[kani::proof]
#[kani::unwind(20)]
fn c20_uplink_serialize_document() {
    tape::init();
    let u = any_uplink();
    let mut doc = Doc::new();
    let r = u.serialize(Ser(&mut doc));
    assert!(r.is_ok() && !doc.overflow && doc.n == 7 + 15, "C20 Uplink document: struct of 3 fields");
    assert!(doc.get(0) == Ev::Struct(3) && doc.names_ok && doc.key_at(1) == Some(1) && doc.get(2) == Ev::Bool(uplink_confirmed(&u)), "C20 Uplink.confirmed (owed ACK) is persisted");
    assert!(doc.key_at(3) == Some(8) && doc.get(4) == Ev::U8(uplink_pending(&u).len() as u8), "C20 Uplink.pending_len = number of pending answer bytes");
    assert!(doc.key_at(5) == Some(9) && doc.get(6) == Ev::Tuple(15), "C20 Uplink.pending_data: 15 bytes");
    let mut i = 0;
    while i < 15 { assert!(doc.get(7 + i) == Ev::U8(if i < uplink_pending(&u).len() { uplink_pending(&u)[i] } else { 0 }), "C20 pending answers persisted byte for byte, zero padded"); i += 1; }
    kani::cover!(uplink_pending(&u).len() == 15, "verif-reached: full queue");
    kani::cover!(uplink_pending(&u).is_empty(), "verif-reached: empty queue");
}

/// Uplink documents of a CONCRETE shape (key sequence, data array length) with arbitrary values: flag, pending_len 0..=255, data bytes
fn uplink_document(keys: &[usize], data_elems: usize, expect_ok_shape: bool) {
    tape::init();
    let mut doc = Doc::new();
    doc.push(Ev::Struct(keys.len()));
    let conf = tape::boolean(); let len = tape::u8(); let data: [u8; 16] = tape::arr();
    let mut f = 0;
    while f < keys.len() {
        doc.push_key(keys[f]);
        match keys[f] {
            1 => doc.push(Ev::Bool(conf)),
            8 => doc.push(Ev::U8(len)),
            9 => { doc.push(Ev::Tuple(data_elems)); let mut i = 0; while i < data_elems { doc.push(Ev::U8(data[i])); i += 1; } }
            _ => doc.push(Ev::U32(tape::u32())),
        }
        f += 1;
    }
    let mut de = De { doc: &doc, pos: 0, nfields: 0 };
    let r = Uplink::deserialize(&mut de);
    match r {
        Ok(u) => {
            assert!(expect_ok_shape, "C20 a document with a missing, duplicated, unknown or wrongly sized field is refused");
            assert!(len <= 15, "C20 a pending_len beyond the 15-byte answer queue is refused -- never truncated, never used as an index");
            assert!(uplink_pending(&u).len() == len as usize && uplink_confirmed(&u) == conf, "C20 queue length and owed ACK restored as persisted");
            let mut i = 0; while i < 15 { if i < len as usize { assert!(uplink_pending(&u)[i] == data[i], "C20 pending answers restored byte for byte"); } i += 1; }
            kani::cover!(len == 15, "verif-maybe: full queue restored");
            kani::cover!(len == 0, "verif-maybe: empty queue restored");
        }
        Err(_) => {
            assert!(!expect_ok_shape || len > 15, "C20 a well-formed Uplink document within the queue bound is accepted");
            kani::cover!(expect_ok_shape && len == 16, "verif-maybe: pending_len 16 refused");
            kani::cover!(!expect_ok_shape, "verif-maybe: malformed shape refused");
        }
    }
    kani::cover!(true, "verif-reached: document harness end");
}
// @verif props=C20,C04 obligation=Uplink::deserialize.contract[well-formed shape] label=proved-complete tier=quick bound="fields in declaration order; any flag, any pending_len 0..=255, any data bytes"
#[kani::proof]
#[kani::unwind(20)]
fn c20_uplink_deserialize_wellformed() { uplink_document(&[1, 8, 9], 15, true) }
// @verif props=C20 obligation=Uplink::deserialize.contract[fields reordered] label=proved-complete tier=quick bound="fields in another order (a self-describing format may reorder); any values"
#[kani::proof]
#[kani::unwind(20)]
fn c20_uplink_deserialize_reordered() { uplink_document(&[9, 1, 8], 15, true) }
// @verif props=C20,C04 obligation=Uplink::deserialize.contract[missing field] label=proved-complete tier=quick bound="pending_data missing; any values"
#[kani::proof]
#[kani::unwind(20)]
fn c20_uplink_deserialize_missing() { uplink_document(&[1, 8], 15, false) }
// @verif props=C20,C04 obligation=Uplink::deserialize.contract[duplicated field] label=proved-complete tier=quick bound="pending_len twice; any values"
#[kani::proof]
#[kani::unwind(20)]
fn c20_uplink_deserialize_duplicate() { uplink_document(&[1, 8, 8, 9], 15, false) }
// @verif props=C20,C04 obligation=Uplink::deserialize.contract[short data array] label=proved-complete tier=quick bound="pending_data with 14 elements; any values"
#[kani::proof]
#[kani::unwind(20)]
fn c20_uplink_deserialize_short_array() { uplink_document(&[1, 8, 9], 14, false) }

/// the document of a session with every scalar VALUE arbitrary (kinds and structure as serialised): what is restored is what
/// the document says, and a pending_len beyond the queue is refused
fn session_document(has_down: bool) {
    tape::init();
    let s = any_session_full(has_down);
    let mut doc = Doc::new();
    let _ = s.serialize(Ser(&mut doc));
    // layout (concrete): 0 Struct(8) 1 key uplink 2 Struct(3) 3 key 4 Bool 5 key 6 U8(len) 7 key 8 Tuple(15) 9..24 bytes | 24 key confirmed 25 Bool ...
    assert!(matches!(doc.get(6), Ev::U8(_)) && doc.key_at(5) == Some(8), "verif-machinery: pending_len sits at event 6");
    let len = tape::u8();
    doc.set(6, Ev::U8(len));
    let mut de = De { doc: &doc, pos: 0, nfields: 0 };
    match Session::deserialize(&mut de) {
        Ok(b) => {
            assert!(len <= 15 && uplink_pending(&b.uplink).len() == len as usize, "C20 a session document whose pending_len exceeds the answer queue is refused; otherwise the queue has the persisted length");
            assert!(b.fcnt_up == s.fcnt_up && b.fcnt_down == s.fcnt_down && b.adr_ack_cnt == s.adr_ack_cnt && b.confirmed == s.confirmed && b.devaddr == s.devaddr, "C20 the other fields are restored as persisted");
            kani::cover!(len == 15, "verif-maybe: queue length 15 accepted");
        }
        Err(_) => { assert!(len > 15, "C20 a session document within bounds is accepted"); kani::cover!(len == 16, "verif-maybe: 16 refused"); }
    }
    kani::cover!(true, "verif-reached: session document harness end");
}
// @verif props=C20,C04 obligation=Session::deserialize.pending_len_any label=proved-complete tier=quick bound="document of any session with pending_len replaced by any 0..=255; structure and scalar kinds as serialised (documents with other kinds/shapes: Uplink-level harnesses)"
#[kani::proof]
#[kani::unwind(20)]
fn c20_session_document_pending_len() { session_document(true) }
