// Contracts + harnesses for the CLASS-C paths of lorawan-device/src/async_device/mod.rs on its de-async'd text (Y1 + Y2):
// `between_windows` (class-c variant, the RXC listen loop between TX / RX1 / RX2), `window_complete`, `rx_downlink` with
// class C enabled, and `rxc_listen`.
//
// Y2 (stated extraction rule, on top of Y1).  The class-c `between_windows` races two LIVE futures with
// `futures::future::select(rx_fut, timeout_fut)`.  Y1 alone cannot represent that.  Y2 replaces, textually and only in the
// scratch copy: `futures::{Either, select, pin_mut}` by the three items of this module, and the bound
// `F: futures::Future<Output = ()> + Sized + Unpin` by `F: Sized` (after Y1 the timer future is the unit value returned by
// `Timer::at`).  `select` becomes a CONTRACT-STUB: it returns `Left((rx_result, timer))` iff the reception future
// completed (ghost flag set by the radio contract-stub's `rx_continuous`), else `Right((.., ..))` = the window timer fired
// first and the reception future is dropped (its nondeterministic result is discarded, the ghost frame counter is not
// advanced).  What Y2 drops, exactly: the order of polls inside `select` and wake-ups; what it keeps: which of the two
// futures wins, for every choice, at every iteration.
// @inject file=lorawan-device/src/async_device/mod.rs mod=verif_async_c
// @job pkg=lorawan-device no-default-features features=class-c,all-regions zflags=function-contracts,stubbing
// @requires common_tape dev_uplink dev_region dev_session dev_mac dev_nb
// @deasync lorawan-device/src/async_device/mod.rs lorawan-device/src/async_device/radio.rs
// @subst lorawan-device/src/async_device/mod.rs "#[cfg(test)]" => "#[cfg(all(test, not(kani)))]"
// @subst lorawan-device/src/async_device/mod.rs "use futures::{future::Either, future::select, pin_mut};" => "use self::verif_async_c::{Either, select, pin_mut};"
// @subst lorawan-device/src/async_device/mod.rs "F: futures::Future<Output = ()> + Sized + Unpin" => "F: Sized"
use super::*;
use crate::verif_tape as tape;
use crate::region::verif_region::TapeRng;
use crate::nb_device::state::verif_nb::{stub_mac_send, stub_mac_join, stub_mac_handle_rx, stub_mac_rx2_complete, ML, MAC_MODE};

// ---- Y2 replacements
pub(crate) enum Either<L, R> { Left(L), Right(R) }
macro_rules! pin_mut { ($($x:ident),* $(,)?) => {}; }
pub(crate) use pin_mut;
/// contract of `futures::future::select` over the two leaf futures of this front-end (reception, window timer)
pub(crate) fn select<A, B>(rx: A, timer: B) -> Either<(A, B), (B, A)> {
    unsafe {
        CC.selects += 1;
        if CC.rx_completed { CC.rx_completed = false; Either::Left((rx, timer)) } else { CC.timer_fired = true; Either::Right((timer, rx)) }
    }
}

pub(crate) const LOGN: usize = 16;
/// ghost log: kind (1 tx, 2 setup_rx, 3 rx_single, 4 low_power, 5 timer.at, 6 timer.reset, 7 rx_continuous) and one argument
pub(crate) struct CLog { pub n: usize, pub kind: [u8; LOGN], pub arg: [u64; LOGN], pub faults: bool,
    /// reception future of the current rx_continuous call completed (frame or error) before the timer
    pub rx_completed: bool, pub timer_fired: bool, pub rx_erred: bool, pub selects: u8,
    /// frames delivered by rx_continuous (completed receptions only): length, first byte, SNR
    pub rxc_n: usize, pub rxc_len: [usize; 4], pub rxc_b0: [u8; 4], pub rxc_snr: [i8; 4], pub budget: u8, pub calls: u8,
    /// last RX configuration handed to setup_rx: frequency, and whether continuous
    pub last_setup_freq: u32, pub last_setup_cont: bool, pub listening_on: [u32; 4], pub listening_cont: [bool; 4] }
pub(crate) static mut CC: CLog = CLog { n: 0, kind: [0; LOGN], arg: [0; LOGN], faults: false, rx_completed: false, timer_fired: false, rx_erred: false, selects: 0,
    rxc_n: 0, rxc_len: [0; 4], rxc_b0: [0; 4], rxc_snr: [0; 4], budget: 0, calls: 0, last_setup_freq: 0, last_setup_cont: false, listening_on: [0; 4], listening_cont: [false; 4] };
fn log(kind: u8, arg: u64) { unsafe { if CC.n < LOGN { CC.kind[CC.n] = kind; CC.arg[CC.n] = arg; CC.n += 1; } } }
fn fault() -> bool { unsafe { CC.faults && tape::stub_u8() & 3 == 0 } }

pub(crate) struct CRadio { lead: u32, buffer: u32 }
#[derive(Debug)] pub(crate) struct CErr(u8);   // not a ZST: with a zero-sized error type Kani 0.68 lost the Ok path of Result<(), E> through this function (measured)
impl radio::PhyRxTx for CRadio {
    type PhyError = CErr;
    const MAX_RADIO_POWER: u8 = 14;
    fn tx(&mut self, _config: radio::TxConfig, _buf: &[u8]) -> Result<u32, CErr> { log(1, 0); if fault() { Err(CErr(1)) } else { Ok(tape::stub_u8() as u32) } }
    fn setup_rx(&mut self, config: radio::RxConfig) -> Result<(), CErr> {
        let cont = matches!(config.mode, radio::RxMode::Continuous);
        log(2, config.rf.frequency as u64 | (cont as u64) << 32);
        unsafe { CC.last_setup_freq = config.rf.frequency; CC.last_setup_cont = cont; }
        if fault() { Err(CErr(1)) } else { Ok(()) } }
    /// A-radio: resolves with a frame written to the front of the buffer (length within it), or with an error, or stays
    /// pending until dropped (then `select` sees the timer win)
    fn rx_continuous(&mut self, rx_buf: &mut [u8]) -> Result<(usize, radio::RxQuality), CErr> {
        log(7, 0);
        unsafe {
            // `calls` counts the receptions started in the current wait (reset when the window timer is armed) and is a
            // concrete number on every path, so that the listen loops unroll budget + 1 times and no further
            CC.calls += 1;
            let k = tape::stub_u8() % 4;
            if CC.calls > CC.budget || k == 0 { CC.rx_completed = false; return Err(CErr(1)); }       // pending: result is never observed
            CC.rx_completed = true;
            if k == 1 { CC.rx_erred = true; return Err(CErr(1)); }
            let n = (tape::stub_u8() % 32) as usize; let b0 = tape::stub_u8(); let snr = tape::stub_u8() as i8;
            if n > 0 && n <= rx_buf.len() { rx_buf[0] = b0; }
            let i = CC.rxc_n; if i < 4 { CC.rxc_len[i] = n; CC.rxc_b0[i] = b0; CC.rxc_snr[i] = snr; CC.listening_on[i] = CC.last_setup_freq; CC.listening_cont[i] = CC.last_setup_cont; } CC.rxc_n += 1;
            Ok((n, radio::RxQuality::new(0, snr)))
        }
    }
    fn rx_single(&mut self, _buf: &mut [u8]) -> Result<radio::RxStatus, CErr> { log(3, 0); if fault() { Err(CErr(1)) } else { Ok(radio::RxStatus::RxTimeout) } }
    fn low_power(&mut self) -> Result<(), CErr> { log(4, 0); if fault() { Err(CErr(1)) } else { Ok(()) } }
}
impl Timings for CRadio {
    fn get_rx_window_lead_time_ms(&self) -> u32 { self.lead }
    fn get_rx_window_buffer(&self) -> u32 { self.buffer }
}
pub(crate) struct CTimer;
impl radio::Timer for CTimer {
    fn reset(&mut self) { log(6, 0); }
    fn at(&mut self, millis: u64) { unsafe { CC.calls = 0; } log(5, millis); }
    fn delay_ms(&mut self, _millis: u64) {}
}

/// contract-stub of Mac::handle_rxc (its contract: dev_mac `Mac::handle_rxc.handoff`): logs what it was handed, answers with
/// any response a joined Class C session produces (NoUpdate for a rejected frame, DownlinkReceived, SessionExpired)
pub(crate) fn stub_mac_handle_rxc<const N: usize, const D: usize>(_m: &mut Mac, _b: &mut RadioBuffer<N>, _dl: &mut Vec<Downlink, D>, _snr: i8, _rf: &radio::RfConfig) -> mac::Result<mac::Response> {
    unsafe {
        let k = ML.handle_rx as usize;
        if k < 4 {
            let fr = _b.as_ref_for_read();
            ML.rx_len[k] = fr.len(); ML.rx_b0[k] = if fr.is_empty() { 0 } else { fr[0] };
            ML.rx_snr[k] = _snr; ML.rx_rf_freq[k] = _rf.frequency; ML.rx_rf_maxlen[k] = _rf.max_payload_len;
        }
        ML.handle_rx += 1;
        let r = tape::stub_u8() % 4;
        ML.resp = r;
        RESP[k.min(3)] = r;
        Ok(match r { 0 | 1 => { ML.resp = 0; RESP[k.min(3)] = 0; mac::Response::NoUpdate } 2 => mac::Response::DownlinkReceived(1), _ => mac::Response::SessionExpired })
    }
}
/// per handle_rxc call: 0 = NoUpdate (rejected frame), else accepted
pub(crate) static mut RESP: [u8; 4] = [0; 4];

pub(crate) fn device(lead: u32, class_c: bool) -> Device<CRadio, CTimer, TapeRng, 64, 2> {
    let buffer = tape::below(200) as u32;
    kani::assume(buffer <= lead);
    let mut mac = Mac::new(region::Configuration::new(Region::EU868), 14, 0);
    mac.join_abp(crate::NwkSKey::from([1; 16]), crate::AppSKey::from([2; 16]), crate::DevAddr::from_value(5));
    mac.configuration.rx1_delay = 1000 * (1 + tape::below(15) as u32);
    let mut s = crate::mac::verif_mac::any_joined_session();
    s.devaddr = crate::DevAddr::from_value(5);
    mac.set_session(s);
    let mut downlink: Vec<Downlink, 2> = Vec::new();
    if tape::boolean() { let _ = downlink.push(Downlink { data: Vec::new(), fport: tape::u8() }); }
    Device { radio: CRadio { lead, buffer }, rng: TapeRng { draws: 0, free: 0, accept: 0 }, timer: CTimer, mac, radio_buffer: RadioBuffer::new(), downlink, class_c }
}

/// every frame rx_continuous delivered went to Mac::handle_rxc exactly as delivered, judged by the RXC (= RX2) configuration
pub(crate) fn handoff_post(rxc_freq: u32, rxc_maxlen: u8) {
    let cl = unsafe { &*(&raw const CC) };
    let ml = unsafe { &*(&raw const ML) };
    assert!(ml.handle_rx as usize == cl.rxc_n, "C18/C07 every frame received in the RXC window is handed to the MAC exactly once, and nothing else is");
    let mut k = 0;
    while k < 4 {
        if k < cl.rxc_n {
            assert!(ml.rx_len[k] == cl.rxc_len[k] && (cl.rxc_len[k] == 0 || ml.rx_b0[k] == cl.rxc_b0[k]) && ml.rx_snr[k] == cl.rxc_snr[k], "C18 the MAC is handed exactly the bytes (and quality) the radio reported");
            assert!(ml.rx_rf_freq[k] == rxc_freq && ml.rx_rf_maxlen[k] == rxc_maxlen, "C05/C10 an RXC frame is judged by the RXC (= RX2, current data rate) parameters");
            assert!(cl.listening_on[k] == rxc_freq && cl.listening_cont[k], "C10 RXC frames are received with the radio set up for RXC (RX2 frequency, continuous)");
        }
        k += 1;
    }
}

/// the whole receive procedure of a Class C device after an uplink, quiet RXC (nothing completes before the timers) and
/// both windows timing out: RXC listening resumes after each window, and the procedure ends with rx2_complete
fn rx_downlink_class_c() {
    tape::init();
    unsafe { CC.faults = false; CC.budget = 1; MAC_MODE = 1; }
    let lead = tape::below(200) as u32;
    let mut d = device(lead, true);
    let wd = tape::stub_u8() as u32;
    let w = mac::RxWindows { rx1: RfConfig { frequency: 1, bb: lora_modulation::BaseBandModulationParams::new(lora_modulation::SpreadingFactor::_7, lora_modulation::Bandwidth::_125KHz, lora_modulation::CodingRate::_4_5), max_payload_len: 59 }, rx2: RfConfig { frequency: 2, bb: lora_modulation::BaseBandModulationParams::new(lora_modulation::SpreadingFactor::_7, lora_modulation::Bandwidth::_125KHz, lora_modulation::CodingRate::_4_5), max_payload_len: 51 } };
    let d1 = d.mac.get_rx_delay(&Frame::Data, &Window::_1);
    let d2 = d.mac.get_rx_delay(&Frame::Data, &Window::_2);
    let rxc = d.mac.get_rxc_config();
    kani::assume(rxc.rf.frequency > 2);
    let r = d.rx_downlink(&Frame::Data, wd, &w);
    let cl = unsafe { &*(&raw const CC) };
    let ml = unsafe { &*(&raw const ML) };
    assert!(r.is_ok(), "no faults: completes");
    handoff_post(rxc.rf.frequency, rxc.rf.max_payload_len);
    // programme: setup_rx(RXC) at(RX1) rx_continuous.. | setup_rx(rx1) rx_single setup_rx(RXC) | setup_rx(RXC) at(RX2) rx_continuous.. | setup_rx(rx2) rx_single setup_rx(RXC)
    let cfreq = rxc.rf.frequency as u64 | 1 << 32;
    let mut i = 0; let mut stage = 0u8; let mut rx_singles = 0; let mut ok = true;
    while i < LOGN {
        if i < cl.n {
            let (k, a) = (cl.kind[i], cl.arg[i]);
            match (stage, k) {
                (0, 2) => { ok &= a == cfreq; stage = 1; }
                (1, 5) => { ok &= a == (d1 + wd - lead) as u64; stage = 2; }
                (2, 7) => {}
                (2, 2) => { ok &= a & 0xffff_ffff == 1 && a >> 32 == 0; stage = 3; }
                (3, 3) => { rx_singles += 1; stage = 4; }
                (4, 2) => { ok &= a == cfreq; stage = 5; }
                (5, 2) => { ok &= a == cfreq; stage = 6; }
                (6, 5) => { ok &= a == (d2 + wd - lead) as u64; stage = 7; }
                (7, 7) => {}
                (7, 2) => { ok &= a & 0xffff_ffff == 2 && a >> 32 == 0; stage = 8; }
                (8, 3) => { rx_singles += 1; stage = 9; }
                (9, 2) => { ok &= a == cfreq; stage = 10; }
                _ => { ok = false; }
            }
        }
        i += 1;
    }
    if ml.handle_rx == 0 || (0..4).all(|k| k >= cl.rxc_n || unsafe { RESP[k] } == 0) {
        assert!(ok && stage == 10 && rx_singles == 2 && cl.n < LOGN, "C10/C07 Class C receive procedure: RXC between the windows, RX1 and RX2 opened at the times and with the parameters bound at TX time, RXC resumed after each window -- with or without rejected RXC frames");
        assert!(ml.rx2_complete == 1, "C06 the procedure ends with rx2_complete");
    }
    kani::cover!(cl.rxc_n == 1 && unsafe { RESP[0] } == 0 && stage == 10, "verif-reached: a rejected RXC frame before a window, procedure completed");
    kani::cover!(cl.rxc_n == 0, "verif-reached: quiet");
}
// @verif props=C10,C07,C06 obligation=async_device::Device::rx_downlink.programme[class C] label=bounded(1 RXC frame) tier=quick bound="de-async'd text (Y1+Y2); at most one reception completes during the two RXC waits; both Class A windows time out; no radio faults"
#[kani::proof]
#[kani::stub(crate::mac::Mac::send, stub_mac_send)]
#[kani::stub(crate::mac::Mac::join_otaa, stub_mac_join)]
#[kani::stub(crate::mac::Mac::handle_rx, stub_mac_handle_rx)]
#[kani::stub(crate::mac::Mac::handle_rxc, stub_mac_handle_rxc)]
#[kani::stub(crate::mac::Mac::rx2_complete, stub_mac_rx2_complete)]
#[kani::unwind(66)]
fn c10_async_rx_downlink_class_c() { rx_downlink_class_c() }

/// `rxc_listen`: keeps listening across rejected frames; returns only with an accepted frame's response or a radio error
fn rxc_listen_contract() {
    tape::init();
    unsafe { CC.faults = false; CC.budget = 3; MAC_MODE = 1; }
    let mut d = device(0, true);
    let rxc = d.mac.get_rxc_config();
    unsafe { CC.last_setup_freq = rxc.rf.frequency; CC.last_setup_cont = true; }   // pre-state: the radio is listening on RXC (window_complete's post)
    let r = d.rxc_listen();
    let cl = unsafe { &*(&raw const CC) };
    handoff_post(rxc.rf.frequency, rxc.rf.max_payload_len);
    match r {
        Ok(_) => {
            assert!(cl.rxc_n >= 1 && unsafe { RESP[(cl.rxc_n - 1).min(3)] } != 0, "C07 rxc_listen reports only an accepted frame");
            let mut k = 0; while k < 3 { if k + 1 < cl.rxc_n { assert!(unsafe { RESP[k] } == 0, "C07 every earlier frame was rejected, and listening simply continued"); } k += 1; }
        }
        Err(_) => {}   // reception failed / never completed within the budget (A-radio: a pending reception is modelled as an error here)
    }
    let mut i = 0; while i < LOGN { if i < cl.n { assert!(cl.kind[i] == 7, "C07 rejected RXC frames cause no radio command: the device keeps listening"); } i += 1; }
    kani::cover!(cl.rxc_n == 3, "verif-reached: two rejected frames then a third");
}
// @verif props=C07,C18,C05 obligation=async_device::Device::rxc_listen.contract label=bounded(3 RXC frames) tier=quick bound="de-async'd text (Y1); the radio delivers up to 3 frames, then the reception fails; MAC contract-stubbed"
#[kani::proof]
#[kani::stub(crate::mac::Mac::send, stub_mac_send)]
#[kani::stub(crate::mac::Mac::join_otaa, stub_mac_join)]
#[kani::stub(crate::mac::Mac::handle_rx, stub_mac_handle_rx)]
#[kani::stub(crate::mac::Mac::handle_rxc, stub_mac_handle_rxc)]
#[kani::stub(crate::mac::Mac::rx2_complete, stub_mac_rx2_complete)]
#[kani::unwind(66)]
fn c07_async_rxc_listen() { rxc_listen_contract() }
