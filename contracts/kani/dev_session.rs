// Contracts + harnesses for lorawan-device/src/mac/session.rs (C05, C06, C07, C12; C04 panic-freedom)
// @inject file=lorawan-device/src/mac/session.rs mod=verif_session
// @job pkg=lorawan-device zflags=function-contracts,stubbing
// @requires common_tape dev_uplink dev_region
//
// C05: the counter accepted for a downlink is the unique N with N = wire (mod 2^16), last < N <= last + 16384
// (any wire value for the first downlink), N <= 2^32-1.
// @contract file=lorawan-device/src/mac/session.rs fn=fn next_fcnt_down
// | #[cfg_attr(kani, kani::ensures(|r: &Option<u32>| crate::mac::session::verif_session::post_next_fcnt_down(last, wire, *r)))]
use super::*;
use crate::mac::uplink::verif_uplink::*;
use crate::region::verif_region::*;
use crate::verif_tape as tape;

/// reference: computed in 64 bits so the specification itself cannot wrap
pub(crate) fn spec_next_fcnt_down(last: Option<u32>, wire: u16) -> Option<u32> {
    match last {
        None => Some(wire as u32),
        Some(l) => {
            let l = l as u64;
            let w = wire as u64;
            // the smallest N > l with N = w (mod 65536); the window (l, l+16384] is narrower than 65536,
            // so it is the only candidate
            let base = (l / 65536) * 65536 + w;
            let n = if base > l { base } else { base + 65536 };
            if n <= l + 16384 && n <= 0xFFFF_FFFF { Some(n as u32) } else { None }
        }
    }
}
pub(crate) fn post_next_fcnt_down(last: Option<u32>, wire: u16, r: Option<u32>) -> bool {
    r == spec_next_fcnt_down(last, wire)
}

// @verif props=C05 obligation=next_fcnt_down.contract label=proved-complete tier=quick unit=next_fcnt_down
#[kani::proof_for_contract(next_fcnt_down)]
fn c05_next_fcnt_down_contract() {
    tape::init();
    let last: Option<u32> = tape::opt_u32();
    let wire: u16 = tape::u16();
    let r = next_fcnt_down(last, wire);
    assert!(post_next_fcnt_down(last, wire, r), "next_fcnt_down == unique N in (last, last+16384] congruent to wire");
    // consequences stated by the property: strictly forward, same low half
    if let (Some(l), Some(n)) = (last, r) {
        assert!(n > l, "accepted counter moves strictly forward");
        assert!(n as u16 == wire, "accepted counter has the wire value as its low half");
    }
    kani::cover!(true, "verif-reached: end");
}

// ================================================================================================
// Session::handle_rx  (C05 acceptance, C06 counters, C07 frame condition, C12 ADR counter / ACK)
// ================================================================================================
use lorawan::default_crypto::DefaultCrypto;
use lorawan::keys::{AES128, Crypto};

/// ghost log of the recording crypto contract-stub (DESIGN 3.1) and of the MAC-command hand-off
pub(crate) struct Ghost {
    pub new_calls: u8,
    pub mic_calls: u8,
    pub mic_b0: [u8; 16],
    pub mic_data_len: usize,
    pub mic_ret: [u8; 4],
    pub enc_calls: u8,
    pub enc_ok: bool,        // every A-block so far matched (first byte 1, same dir/addr/counter, index = call number)
    pub enc_dir: u8,
    pub enc_addr: [u8; 4],
    pub enc_fcnt: [u8; 4],
    pub macs_calls: u8,
}
pub(crate) const G0: Ghost = Ghost {
    new_calls: 0, mic_calls: 0, mic_b0: [0; 16], mic_data_len: 0, mic_ret: [0; 4], enc_calls: 0, enc_ok: true,
    enc_dir: 0, enc_addr: [0; 4], enc_fcnt: [0; 4], macs_calls: 0,
};
pub(crate) static mut G: Ghost = G0;

/// A-crypto stub: `DefaultCrypto::new` (AES key expansion) -- the object carries no information the
/// stubs below use.
pub(crate) fn stub_crypto_new(_key: &AES128) -> DefaultCrypto {
    unsafe { G.new_calls = G.new_calls.wrapping_add(1); core::mem::MaybeUninit::<DefaultCrypto>::zeroed().assume_init() }
}
/// A-crypto stub: records B0 | msg, returns the harness-chosen (arbitrary) MIC
pub(crate) fn stub_calculate_mic(_c: &DefaultCrypto, b0: &[u8], data: &[u8]) -> [u8; 4] {
    unsafe {
        G.mic_calls = G.mic_calls.wrapping_add(1);
        if b0.len() == 16 { let mut i = 0; while i < 16 { G.mic_b0[i] = b0[i]; i += 1; } } else { G.mic_b0[0] = 0xEE; }
        G.mic_data_len = data.len();
        G.mic_ret
    }
}
/// A-crypto stub: records the A_i block, returns an arbitrary key-stream block
pub(crate) fn stub_encrypt_block(_c: &DefaultCrypto, block: &mut [u8]) {
    unsafe {
        G.enc_calls = G.enc_calls.wrapping_add(1);
        if block.len() != 16 || block[0] != 0x01 || block[1] != 0 || block[2] != 0 || block[3] != 0 || block[4] != 0
            || block[14] != 0 || block[15] != G.enc_calls {
            G.enc_ok = false;
        } else if G.enc_calls == 1 {
            G.enc_dir = block[5];
            G.enc_addr = [block[6], block[7], block[8], block[9]];
            G.enc_fcnt = [block[10], block[11], block[12], block[13]];
        } else if G.enc_dir != block[5] || G.enc_addr != [block[6], block[7], block[8], block[9]]
            || G.enc_fcnt != [block[10], block[11], block[12], block[13]] {
            G.enc_ok = false;
        }
        let ks: [u8; 16] = tape::stub_arr();
        let mut i = 0;
        while i < 16 { if i < block.len() { block[i] = ks[i]; } i += 1; }
    }
}
/// contract-stub of Session::handle_downlink_macs for the harnesses of *this* layer: counts the hand-offs.
/// (Its own contract is the subject of the C04/C08 harnesses.)
pub(crate) fn stub_handle_downlink_macs(
    _s: &mut Session, _configuration: &mut crate::mac::Configuration, _region: &mut region::Configuration,
    _cmds: MacCommands<'_, DownlinkMacCommand<'_>>, _snr: i8,
) {
    unsafe { G.macs_calls = G.macs_calls.wrapping_add(1); }
}

pub(crate) fn any_session() -> Session { any_session_with(any_uplink()) }
pub(crate) fn any_session_with(uplink: crate::mac::uplink::Uplink) -> Session {
    Session {
        uplink,
        confirmed: tape::boolean(),
        // keys only reach the (stubbed) AES key schedule: one symbolic byte each keeps them distinguishable
        nwkskey: NwkSKey::from([tape::u8(); 16]),
        appskey: AppSKey::from([tape::u8(); 16]),
        devaddr: DevAddr::from_wire_bytes(tape::arr()),
        fcnt_up: tape::u32(),
        fcnt_down: tape::opt_u32(),
        adr_ack_cnt: tape::u32(),
    }
}
pub(crate) fn any_mac_configuration(region: &region::Configuration) -> crate::mac::Configuration {
    let dr: u8 = tape::u8();
    kani::assume(dr_defined(region, dr));
    let rx2: Option<u8> = tape::opt_u8();
    if let Some(d) = rx2 { kani::assume(dr_defined(region, d)); }
    crate::mac::Configuration {
        data_rate: DR::from(dr),
        rx1_delay: tape::u32(),
        join_accept_delay1: region::constants::JOIN_ACCEPT_DELAY1,
        join_accept_delay2: region::constants::JOIN_ACCEPT_DELAY2,
        tx_power: tape::opt_u8(),
        rx1_dr_offset: tape::u8(),
        rx2_data_rate: rx2.map(DR::from),
        rx2_frequency: tape::opt_u32(),
        adr_enabled: tape::boolean(),
    }
}
pub(crate) fn session_eq(a: &Session, b: &Session) -> bool {
    uplink_eq(&a.uplink, &b.uplink) && a.confirmed == b.confirmed && a.nwkskey.inner().0 == b.nwkskey.inner().0
        && a.appskey.inner().0 == b.appskey.inner().0 && a.devaddr == b.devaddr && a.fcnt_up == b.fcnt_up
        && a.fcnt_down == b.fcnt_down && a.adr_ack_cnt == b.adr_ack_cnt
}

// ---- independent structural spec of a data frame (LoRaWAN 1.0.x 4.1-4.3), written for the harness
pub(crate) fn spec_wf_data(b: &[u8]) -> bool {
    b.len() >= 12 && (b[0] & 3) == 0 && (b[0] >> 5) >= 2 && (b[0] >> 5) <= 5 && 8 + ((b[5] & 0x0f) as usize) <= b.len() - 4
}
pub(crate) fn spec_port(b: &[u8]) -> Option<u8> {
    let h = 8 + (b[5] & 0x0f) as usize;
    if h < b.len() - 4 { Some(b[h]) } else { None }
}
pub(crate) fn spec_frm_start(b: &[u8]) -> usize {
    let h = 8 + (b[5] & 0x0f) as usize;
    if h < b.len() - 4 { h + 1 } else { h }
}

pub(crate) const RXN: usize = 64;

fn handle_rx_contract<const MAX_FRAME: usize>(ignore_mac: bool, all_regions: bool) {
    tape::init();
    let mut region = if all_regions { any_fresh_region() } else { region::Configuration::new(region::Region::EU868) };
    let mut cfg = any_mac_configuration(&region);
    let mut s = any_session();
    let old = s.clone();
    let old_cfg = cfg;
    // received frame: any bytes, any length up to MAX_FRAME
    let len: usize = tape::below(MAX_FRAME + 1);
    let bytes: [u8; MAX_FRAME] = tape::arr();
    let mut rx: RadioBuffer<RXN> = RadioBuffer::new();
    { let p = rx.as_mut(); let mut i = 0; while i < MAX_FRAME { p[i] = bytes[i]; i += 1; } }
    rx.set_pos(len);
    let max_payload_len: u8 = tape::u8();
    let snr: i8 = tape::i8();
    let mic_ret: [u8; 4] = tape::arr();
    unsafe { G.mic_ret = mic_ret; }
    let mut dl: Vec<Downlink, 1> = Vec::new();

    let resp = s.handle_rx::<RXN, 1>(&mut region, &mut cfg, &mut rx, &mut dl, max_payload_len, snr, ignore_mac);

    let frame = &bytes[..len];
    let after = rx.as_ref_for_read();
    #[allow(static_mut_refs)]
    let g = unsafe { &*(&raw const G) };
    let wf = spec_wf_data(frame);
    if !wf {
        // unparseable: nothing at all happens
        assert!(matches!(resp, Response::NoUpdate), "C07 unparseable frame => NoUpdate");
        assert!(session_eq(&s, &old) && cfg == old_cfg, "C07 unparseable frame changes no state");
        assert!(g.mic_calls == 0 && g.enc_calls == 0 && g.macs_calls == 0 && dl.is_empty(), "C07 unparseable frame: no crypto, no MAC commands, no delivery");
        kani::cover!(true, "verif-reached: not well-formed");
        return;
    }
    let fits = len <= max_payload_len as usize + 5;
    if !fits {
        // oversize: ends the receive procedure exactly like a time-out, and nothing else
        let mut s2 = old.clone();
        let mut cfg2 = old_cfg;
        let resp2 = s2.rx2_complete(&mut cfg2, &region);
        assert!(session_eq(&s, &s2) && cfg == cfg2, "C07 oversize frame == rx2_complete and nothing else");
        assert!(core::mem::discriminant(&resp) == core::mem::discriminant(&resp2), "C07 oversize frame response == rx2_complete response");
        assert!(g.mic_calls == 0 && g.enc_calls == 0 && g.macs_calls == 0 && dl.is_empty(), "C07 oversize frame: no crypto, no MAC commands, no delivery");
        kani::cover!(true, "verif-reached: oversize");
        return;
    }
    let wire = u16::from_le_bytes([frame[6], frame[7]]);
    let n = spec_next_fcnt_down(old.fcnt_down, wire);
    let mic_ok = mic_ret == [frame[len - 4], frame[len - 3], frame[len - 2], frame[len - 1]];
    let accepted = n.is_some() && mic_ok;
    if let Some(nn) = n {
        // the MIC was computed exactly once, over B0 | msg with the full counter N and the frame's own direction
        assert!(g.mic_calls == 1, "C05 MIC computed exactly once for a fresh-looking frame");
        let b0 = g.mic_b0;
        let nb = nn.to_le_bytes();
        assert!(b0[0] == 0x49 && b0[1] == 0 && b0[2] == 0 && b0[3] == 0 && b0[4] == 0 && b0[5] == ((frame[0] >> 5) & 1)
            && b0[6] == frame[1] && b0[7] == frame[2] && b0[8] == frame[3] && b0[9] == frame[4]
            && b0[10] == nb[0] && b0[11] == nb[1] && b0[12] == nb[2] && b0[13] == nb[3] && b0[14] == 0 && b0[15] as usize == len - 4,
            "C05 B0 = 49 | 0^4 | Dir | DevAddr | N (32 bit) | 0 | len");
        assert!(g.mic_data_len == len - 4, "C05 MIC covers the frame without its MIC");
    } else {
        assert!(g.mic_calls == 0, "C05 stale/too-far counters are dropped before any MIC is computed");
    }
    if !accepted {
        assert!(matches!(resp, Response::NoUpdate), "C07 rejected frame => NoUpdate");
        assert!(s.fcnt_down == old.fcnt_down, "C05 rejected frame does not move the downlink counter");
        assert!(s.fcnt_up == old.fcnt_up, "C06 rejected frame does not move the uplink counter");
        assert!(s.adr_ack_cnt == old.adr_ack_cnt, "C12 rejected frame does not restart the ADR count");
        assert!(uplink_confirmed(&s.uplink) == uplink_confirmed(&old.uplink), "C12 rejected frame owes no ACK");
        assert!(session_eq(&s, &old), "C07 rejected frame changes no session state (queued MAC answers, flags, keys, counters)");
        assert!(cfg == old_cfg, "C07 rejected frame changes no MAC configuration");
        assert!(g.enc_calls == 0 && g.macs_calls == 0 && dl.is_empty(), "C07 rejected frame: nothing decrypted, executed or delivered");
        let mut i = 0;
        while i < MAX_FRAME { if i < len { assert!(after[i] == bytes[i], "C02/C07 rejected frame: buffer untouched"); } i += 1; }
        kani::cover!(true, "verif-reached: rejected");
        return;
    }
    let nn = n.unwrap();
    // ---- accepted
    assert!(s.fcnt_down == Some(nn), "C05 accepted frame: N remembered");
    assert!(s.adr_ack_cnt == 0, "C12 accepted downlink restarts the ADR count");
    if old.fcnt_up == u32::MAX {
        assert!(matches!(resp, Response::SessionExpired) && s.fcnt_up == u32::MAX, "C06 exhausted counter space => SessionExpired, no wrap");
    } else {
        assert!(s.fcnt_up == old.fcnt_up + 1, "C06 accepted downlink advances FCntUp by one");
        assert!(matches!(resp, Response::DownlinkReceived(x) if x == nn), "C05 accepted frame reported with N");
    }
    let confirmed_frame = (frame[0] >> 5) == 5 || (frame[0] >> 5) == 4;
    assert!(uplink_confirmed(&s.uplink) == (uplink_confirmed(&old.uplink) || confirmed_frame), "C12 ACK owed iff a confirmed frame was accepted (or already owed)");
    assert!(s.confirmed == old.confirmed && s.devaddr == old.devaddr && s.nwkskey.inner().0 == old.nwkskey.inner().0 && s.appskey.inner().0 == old.appskey.inner().0, "keys/address untouched");
    // payload decrypted with the same N, direction and address
    let fs = spec_frm_start(frame);
    let plen = len - 4 - fs;
    let nb = nn.to_le_bytes();
    if plen > 0 {
        assert!(g.enc_ok && g.enc_calls as usize == (plen + 15) / 16, "C05 one A_i block per 16 payload bytes, indices 1.., identical header");
        assert!(g.enc_dir == ((frame[0] >> 5) & 1) && g.enc_addr == [frame[1], frame[2], frame[3], frame[4]] && g.enc_fcnt == nb, "C05 payload decrypted with the same N / direction / address as the MIC");
    } else {
        assert!(g.enc_calls == 0, "no key stream for an empty FRMPayload");
    }
    // header and MIC bytes are never rewritten
    let mut i = 0;
    while i < MAX_FRAME { if i < fs || (i >= len - 4 && i < len) { assert!(after[i] == bytes[i], "C02 only FRMPayload bytes are rewritten"); } i += 1; }
    let port = spec_port(frame);
    if ignore_mac {
        assert!(g.macs_calls == 0, "C05 Class C reception executes no MAC commands");
        assert!(uplink_pending(&s.uplink).len() == uplink_pending(&old.uplink).len(), "Class C reception keeps queued answers");
    } else {
        assert!(g.macs_calls == 1 + (if port == Some(0) { 1 } else { 0 }), "C05 Class A: FOpts handed to the MAC, then the port-0 payload");
        assert!(uplink_pending(&s.uplink).is_empty(), "C08 an accepted Class A downlink retires the sticky answers");
    }
    // delivery
    match port {
        Some(p) if p > 0 && old.fcnt_up != u32::MAX => {
            assert!(dl.len() == 1 && dl[0].fport == p && dl[0].data.len() == plen, "C05 application payload delivered with its port");
            let mut k = 0;
            while k < MAX_FRAME { if k < plen { assert!(dl[0].data[k] == after[fs + k], "delivered bytes are the decrypted FRMPayload"); } k += 1; }
        }
        _ => assert!(dl.is_empty(), "nothing delivered without an application port"),
    }
    kani::cover!(true, "verif-reached: accepted");
}

// @verif props=C05,C06,C07,C12,C04,C08 obligation=Session::handle_rx.contract[ClassA] label=bounded(frame<=16B,EU868) tier=quick bound="frame length <= 16 bytes, region EU868 (region only matters on the oversize path); all byte values, lengths, session states symbolic"
#[kani::proof]
#[kani::stub(lorawan::default_crypto::DefaultCrypto::new, stub_crypto_new)]
#[kani::stub(<lorawan::default_crypto::DefaultCrypto as lorawan::keys::Crypto>::calculate_mic, stub_calculate_mic)]
#[kani::stub(<lorawan::default_crypto::DefaultCrypto as lorawan::keys::Crypto>::encrypt_block, stub_encrypt_block)]
#[kani::stub(Session::handle_downlink_macs, stub_handle_downlink_macs)]
#[kani::unwind(20)]
fn c05_handle_rx_class_a_q() { handle_rx_contract::<16>(false, false) }

// @verif props=C05,C06,C07,C12,C04,C08 obligation=Session::handle_rx.contract[ClassC] label=bounded(frame<=16B,EU868) tier=quick bound="frame length <= 16 bytes, region EU868"
#[kani::proof]
#[kani::stub(lorawan::default_crypto::DefaultCrypto::new, stub_crypto_new)]
#[kani::stub(<lorawan::default_crypto::DefaultCrypto as lorawan::keys::Crypto>::calculate_mic, stub_calculate_mic)]
#[kani::stub(<lorawan::default_crypto::DefaultCrypto as lorawan::keys::Crypto>::encrypt_block, stub_encrypt_block)]
#[kani::stub(Session::handle_downlink_macs, stub_handle_downlink_macs)]
#[kani::unwind(20)]
fn c05_handle_rx_class_c_q() { handle_rx_contract::<16>(true, false) }

// @verif props=C05,C06,C07,C12,C04,C08 obligation=Session::handle_rx.contract[ClassA,30B] label=bounded(frame<=30B) tier=thorough bound="frame length <= 30 bytes (two AES-CTR blocks, FOpts up to 15), all 9 regions"
#[kani::proof]
#[kani::stub(lorawan::default_crypto::DefaultCrypto::new, stub_crypto_new)]
#[kani::stub(<lorawan::default_crypto::DefaultCrypto as lorawan::keys::Crypto>::calculate_mic, stub_calculate_mic)]
#[kani::stub(<lorawan::default_crypto::DefaultCrypto as lorawan::keys::Crypto>::encrypt_block, stub_encrypt_block)]
#[kani::stub(Session::handle_downlink_macs, stub_handle_downlink_macs)]
#[kani::unwind(34)]
fn c05_handle_rx_class_a_t() { handle_rx_contract::<30>(false, true) }

// @verif props=C05,C06,C07,C12,C04,C08 obligation=Session::handle_rx.contract[ClassC,30B] label=bounded(frame<=30B) tier=thorough bound="frame length <= 30 bytes, all 9 regions"
#[kani::proof]
#[kani::stub(lorawan::default_crypto::DefaultCrypto::new, stub_crypto_new)]
#[kani::stub(<lorawan::default_crypto::DefaultCrypto as lorawan::keys::Crypto>::calculate_mic, stub_calculate_mic)]
#[kani::stub(<lorawan::default_crypto::DefaultCrypto as lorawan::keys::Crypto>::encrypt_block, stub_encrypt_block)]
#[kani::stub(Session::handle_downlink_macs, stub_handle_downlink_macs)]
#[kani::unwind(34)]
fn c05_handle_rx_class_c_t() { handle_rx_contract::<30>(true, true) }

// ================================================================================================
// next_lower_datarate, rx2_complete   (C06 counter step, C12 ADR back-off)
// ================================================================================================
/// max { x < cur : region defines x }
pub(crate) fn spec_next_lower(region: &region::Configuration, cur: u8) -> Option<u8> {
    let mut best: Option<u8> = None;
    let mut x: u8 = 0;
    while x < 16 {
        if x < cur && dr_defined(region, x) { best = Some(x); }
        x += 1;
    }
    best
}

// @verif props=C12,C04 obligation=next_lower_datarate.contract label=proved-complete tier=quick
#[kani::proof]
#[kani::unwind(18)]
fn c12_next_lower_datarate() {
    tape::init();
    let region = any_fresh_region();
    let cur = tape::u8() & 0x0f;
    // every DR value a configuration can hold (DR15 included): never panics
    let r = next_lower_datarate(&region, DR::from(cur));
    assert!(r.map(|d| d as u8) == spec_next_lower(&region, cur), "next_lower_datarate == largest region-defined rate below the current one");
    kani::cover!(r.is_some(), "verif-reached: lower rate exists");
    kani::cover!(r.is_none(), "verif-reached: no lower rate");
}

// @verif props=C06,C12,C04 obligation=Session::rx2_complete.contract label=proved-complete tier=quick
#[kani::proof]
#[kani::unwind(18)]
fn c06_rx2_complete() {
    tape::init();
    let region = any_fresh_region();
    let mut cfg = any_mac_configuration(&region);
    let mut s = any_session();
    let old = s.clone();
    let old_cfg = cfg;
    let resp = s.rx2_complete(&mut cfg, &region);
    if old.fcnt_up == u32::MAX {
        assert!(matches!(resp, Response::SessionExpired), "C06 counter space exhausted => SessionExpired");
        assert!(session_eq(&s, &old) && cfg == old_cfg, "C06 an expired session changes nothing (no wrap)");
        kani::cover!(true, "verif-reached: expired");
        return;
    }
    assert!(s.fcnt_up == old.fcnt_up + 1, "C06 end of the receive procedure advances FCntUp by exactly one");
    assert!(s.fcnt_down == old.fcnt_down && uplink_eq(&s.uplink, &old.uplink) && s.confirmed == old.confirmed && s.devaddr == old.devaddr, "rx2_complete frame");
    if old.confirmed { assert!(matches!(resp, Response::NoAck), "confirmed uplink without downlink => NoAck"); }
    else { assert!(matches!(resp, Response::RxComplete), "unconfirmed uplink without downlink => RxComplete"); }
    let mut exp_cfg = old_cfg;
    if old_cfg.adr_enabled {
        let cnt = if old.adr_ack_cnt == u32::MAX { u32::MAX } else { old.adr_ack_cnt + 1 };
        assert!(s.adr_ack_cnt == cnt, "C12 ADR count +1 (saturating) per uplink without accepted downlink");
        // back-off after 96, 128, ... uplinks (ADR_ACK_LIMIT 64 + k * ADR_ACK_DELAY 32, k >= 1)
        if cnt >= 96 && (cnt - 64) % 32 == 0 {
            if let Some(d) = spec_next_lower(&region, old_cfg.data_rate as u8) { exp_cfg.data_rate = DR::from(d); }
        }
    } else {
        assert!(s.adr_ack_cnt == old.adr_ack_cnt, "C12 ADR disabled: count untouched");
    }
    assert!(cfg == exp_cfg, "C12 data rate steps down exactly at 96,128,.. uplinks while ADR is on, nothing else changes");
    kani::cover!(cfg.data_rate != old_cfg.data_rate, "verif-reached: back-off step");
    kani::cover!(cfg.data_rate == old_cfg.data_rate, "verif-reached: no step");
}

// ---------------------------------------------------------------------------------------------
// C09 "ADR back-off lowers data_rate independently of the mask": after a LinkADRReq mask was accepted for the
// current data rate (the real channel_mask_validate said yes), a back-off step must leave the device with a data
// rate for which the mask still has a channel, otherwise FixedChannelPlan::select_tx_channel never exits.
fn adr_backoff_keeps_usable(r: region::Region, wide_dr: u8, witness: bool) {
    tape::init();
    let mut region = region::Configuration::new(r);
    let mask = lorawan::types::ChannelMask::<9>::from(tape::arr::<9>());
    let dr = tape::u8();
    kani::assume(dr <= wide_dr);                                                  // an uplink data rate of the fixed plan
    kani::assume(region.channel_mask_validate(&mask, Some(DR::from(dr))));      // the network's mask was accepted for it
    region.channel_mask_set(mask.clone());
    let mut narrow = false;
    let mut i = 0;
    while i < 8 { if mask.get_index(i) != 0 { narrow = true; } i += 1; }
    let wide = mask.get_index(8) != 0;
    // KF-C09-5 selector: the accepted mask has only 500 kHz channels (then dr is the 500 kHz rate)
    kani::assume((!narrow) == witness);
    let mut cfg = any_mac_configuration(&region);
    cfg.data_rate = DR::from(dr);
    let mut s = any_session();
    kani::assume(s.fcnt_up != u32::MAX);
    let _ = s.rx2_complete(&mut cfg, &region);
    let new_dr = cfg.data_rate as u8;
    assert!(if new_dr == wide_dr { wide } else { narrow }, "C09 after an ADR back-off step the mask in force still enables a channel whose bandwidth matches the new data rate (channel selection terminates)");
    kani::cover!(new_dr != dr, "verif-reached: back-off step taken");
}
// @verif props=C09,C04 obligation=Session::rx2_complete.keeps_usable[US915] label=proved-complete tier=quick bound="every accepted mask x every uplink DR x every ADR counter; KF-C09-5 class excluded"
#[kani::proof]
#[kani::unwind(74)]
fn c09_adr_backoff_keeps_usable_us915() { adr_backoff_keeps_usable(region::Region::US915, 4, false) }
// @verif props=C09,C04 obligation=Session::rx2_complete.keeps_usable[AU915] label=proved-complete tier=thorough bound="every accepted mask x every uplink DR x every ADR counter; KF-C09-5 class excluded"
#[kani::proof]
#[kani::unwind(74)]
fn c09_adr_backoff_keeps_usable_au915() { adr_backoff_keeps_usable(region::Region::AU915, 6, false) }
// @verif props=C09,C04 obligation=Session::rx2_complete.keeps_usable[US915,KF-C09-5] label=proved-complete tier=quick finding=KF-C09-5
#[kani::proof]
#[kani::unwind(74)]
fn c09_adr_backoff_kf5_witness() { adr_backoff_keeps_usable(region::Region::US915, 4, true) }

// ================================================================================================
// Session::prepare_buffer   (C06 counter on the wire / in MIC+encryption, C12 header bits, C08 sticky answers)
// real DataFrame::build_into and securityhelpers run; only AES/CMAC are the recording stubs.
// ================================================================================================
pub(crate) const MAX_APP: usize = 2;

fn prepare_buffer_contract(fport_zero: bool, np_fixed: usize, dlen_fixed: usize) {
    tape::init();
    let region = region::Configuration::new(region::Region::EU868);
    let cfg = any_mac_configuration(&region);
    let mut s = any_session_with(any_uplink_len(np_fixed));
    let old = s.clone();
    let dlen = if fport_zero { 0 } else { dlen_fixed };
    let data: [u8; MAX_APP] = tape::arr();
    let fport = if fport_zero { 0 } else { let p = tape::u8(); kani::assume(p != 0); p };
    let confirmed = tape::boolean();
    let mut tx: RadioBuffer<64> = RadioBuffer::new();
    let sd = SendData { data: &data[..dlen], fport, confirmed };

    let fcnt = s.prepare_buffer::<64>(&sd, &mut tx, &cfg, &region);

    let g = unsafe { &*(&raw const G) };
    let out = tx.as_ref_for_read();
    let pend = uplink_pending(&old.uplink);
    let np = pend.len();
    let fopts_len = if fport_zero { 0 } else { np };
    let frm_len = if fport_zero { np } else { dlen };
    assert!(fcnt == old.fcnt_up && s.fcnt_up == old.fcnt_up, "C06 the frame is built with the current FCntUp, which is not advanced here");
    assert!(out.len() == 8 + fopts_len + 1 + frm_len + 4, "uplink length = MHDR FHDR FPort FRMPayload MIC");
    assert!(out[0] == (if confirmed { 0x80 } else { 0x40 }), "C12 message type as requested by the application");
    assert!(out[1..5] == *old.devaddr.as_wire_bytes(), "C12 device address of the session");
    let fctrl = out[5];
    assert!((fctrl & 0x80 != 0) == cfg.adr_enabled, "C12 ADR bit iff ADR enabled");
    let want_req = cfg.adr_enabled && old.adr_ack_cnt >= 64 && spec_next_lower(&region, cfg.data_rate as u8).is_some();
    assert!((fctrl & 0x40 != 0) == want_req, "C12 ADRACKReq iff ADR enabled, >= 64 uplinks without downlink, and a lower rate exists");
    assert!((fctrl & 0x20 != 0) == uplink_confirmed(&old.uplink), "C12 ACK bit iff an accepted confirmed downlink is owed an acknowledgement");
    assert!(!uplink_confirmed(&s.uplink), "C12 the ACK is sent once");
    assert!(fctrl & 0x10 == 0 && (fctrl & 0x0f) as usize == fopts_len, "FCtrl: no class B bit, FOptsLen");
    assert!(out[6] == old.fcnt_up as u8 && out[7] == (old.fcnt_up >> 8) as u8, "C06 low half of FCntUp on the wire");
    let mut i = 0;
    while i < 15 { if i < fopts_len { assert!(out[8 + i] == pend[i], "C08 queued MAC answers piggybacked in FOpts"); } i += 1; }
    assert!(out[8 + fopts_len] == fport, "FPort");
    // crypto saw the full 32-bit counter, uplink direction, session address
    let nb = old.fcnt_up.to_le_bytes();
    let b0 = g.mic_b0;
    assert!(g.mic_calls == 1 && b0[0] == 0x49 && b0[5] == 0 && b0[6..10] == *old.devaddr.as_wire_bytes() && b0[10..14] == nb
        && b0[15] as usize == out.len() - 4 && g.mic_data_len == out.len() - 4, "C06 MIC over B0|msg with the full 32-bit FCntUp, direction 0");
    assert!(out[out.len() - 4..] == g.mic_ret, "MIC appended");
    if frm_len > 0 {
        assert!(g.enc_ok && g.enc_calls as usize == (frm_len + 15) / 16 && g.enc_dir == 0 && g.enc_addr == *old.devaddr.as_wire_bytes() && g.enc_fcnt == nb,
            "C06 payload encrypted with the full 32-bit FCntUp");
    } else {
        assert!(g.enc_calls == 0, "no key stream without FRMPayload");
    }
    assert!(s.confirmed == confirmed, "confirmed flag remembered for the receive procedure");
    // C08: after the frame is built the queue is cleaned keeping the sticky answers (retain_acks = true), once
    assert!(unsafe { CLEAR_CALLS } == 1 && unsafe { CLEAR_RETAIN }, "C08 after an uplink the queue is reduced to the sticky answers (clear_mac_commands(true))");
    assert!(uplink_pending(&s.uplink).len() == np, "queue otherwise untouched by prepare_buffer");
    assert!(s.fcnt_down == old.fcnt_down && s.adr_ack_cnt == old.adr_ack_cnt && s.devaddr == old.devaddr, "prepare_buffer frame");
    kani::cover!(true, "verif-reached: end of harness");
}

// One harness per concrete (queued bytes, payload bytes) pair: concrete lengths keep every slice operation at a
// fixed offset (a symbolic length cost 6.4 M SAT variables / 5 min in the same harness; measured).
// @verif props=C06,C12,C08,C04 obligation=Session::prepare_buffer.contract[FPort>0,queued=0,app=0] label=bounded(lengths) tier=thorough bound="exactly 0 queued MAC-answer bytes and 0 application bytes (content symbolic), region EU868; any other session state"
#[kani::proof]
#[kani::stub(lorawan::default_crypto::DefaultCrypto::new, stub_crypto_new)]
#[kani::stub(<lorawan::default_crypto::DefaultCrypto as lorawan::keys::Crypto>::calculate_mic, stub_calculate_mic)]
#[kani::stub(<lorawan::default_crypto::DefaultCrypto as lorawan::keys::Crypto>::encrypt_block, stub_encrypt_block)]
#[kani::stub(crate::mac::uplink::Uplink::clear_mac_commands, stub_clear_record)]
#[kani::unwind(20)]
fn c12_prepare_buffer_data_q0_a0() { prepare_buffer_contract(false, 0, 0) }
// @verif props=C06,C12,C08,C04 obligation=Session::prepare_buffer.contract[FPort>0,queued=0,app=1] label=bounded(lengths) tier=quick bound="exactly 0 queued MAC-answer bytes and 1 application bytes (content symbolic), region EU868; any other session state"
#[kani::proof]
#[kani::stub(lorawan::default_crypto::DefaultCrypto::new, stub_crypto_new)]
#[kani::stub(<lorawan::default_crypto::DefaultCrypto as lorawan::keys::Crypto>::calculate_mic, stub_calculate_mic)]
#[kani::stub(<lorawan::default_crypto::DefaultCrypto as lorawan::keys::Crypto>::encrypt_block, stub_encrypt_block)]
#[kani::stub(crate::mac::uplink::Uplink::clear_mac_commands, stub_clear_record)]
#[kani::unwind(20)]
fn c12_prepare_buffer_data_q0_a1() { prepare_buffer_contract(false, 0, 1) }
// @verif props=C06,C12,C08,C04 obligation=Session::prepare_buffer.contract[FPort>0,queued=0,app=2] label=bounded(lengths) tier=thorough bound="exactly 0 queued MAC-answer bytes and 2 application bytes (content symbolic), region EU868; any other session state"
#[kani::proof]
#[kani::stub(lorawan::default_crypto::DefaultCrypto::new, stub_crypto_new)]
#[kani::stub(<lorawan::default_crypto::DefaultCrypto as lorawan::keys::Crypto>::calculate_mic, stub_calculate_mic)]
#[kani::stub(<lorawan::default_crypto::DefaultCrypto as lorawan::keys::Crypto>::encrypt_block, stub_encrypt_block)]
#[kani::stub(crate::mac::uplink::Uplink::clear_mac_commands, stub_clear_record)]
#[kani::unwind(20)]
fn c12_prepare_buffer_data_q0_a2() { prepare_buffer_contract(false, 0, 2) }
// @verif props=C06,C12,C08,C04 obligation=Session::prepare_buffer.contract[FPort>0,queued=1,app=0] label=bounded(lengths) tier=thorough bound="exactly 1 queued MAC-answer bytes and 0 application bytes (content symbolic), region EU868; any other session state"
#[kani::proof]
#[kani::stub(lorawan::default_crypto::DefaultCrypto::new, stub_crypto_new)]
#[kani::stub(<lorawan::default_crypto::DefaultCrypto as lorawan::keys::Crypto>::calculate_mic, stub_calculate_mic)]
#[kani::stub(<lorawan::default_crypto::DefaultCrypto as lorawan::keys::Crypto>::encrypt_block, stub_encrypt_block)]
#[kani::stub(crate::mac::uplink::Uplink::clear_mac_commands, stub_clear_record)]
#[kani::unwind(20)]
fn c12_prepare_buffer_data_q1_a0() { prepare_buffer_contract(false, 1, 0) }
// @verif props=C06,C12,C08,C04 obligation=Session::prepare_buffer.contract[FPort>0,queued=1,app=1] label=bounded(lengths) tier=quick bound="exactly 1 queued MAC-answer bytes and 1 application bytes (content symbolic), region EU868; any other session state"
#[kani::proof]
#[kani::stub(lorawan::default_crypto::DefaultCrypto::new, stub_crypto_new)]
#[kani::stub(<lorawan::default_crypto::DefaultCrypto as lorawan::keys::Crypto>::calculate_mic, stub_calculate_mic)]
#[kani::stub(<lorawan::default_crypto::DefaultCrypto as lorawan::keys::Crypto>::encrypt_block, stub_encrypt_block)]
#[kani::stub(crate::mac::uplink::Uplink::clear_mac_commands, stub_clear_record)]
#[kani::unwind(20)]
fn c12_prepare_buffer_data_q1_a1() { prepare_buffer_contract(false, 1, 1) }
// @verif props=C06,C12,C08,C04 obligation=Session::prepare_buffer.contract[FPort>0,queued=1,app=2] label=bounded(lengths) tier=thorough bound="exactly 1 queued MAC-answer bytes and 2 application bytes (content symbolic), region EU868; any other session state"
#[kani::proof]
#[kani::stub(lorawan::default_crypto::DefaultCrypto::new, stub_crypto_new)]
#[kani::stub(<lorawan::default_crypto::DefaultCrypto as lorawan::keys::Crypto>::calculate_mic, stub_calculate_mic)]
#[kani::stub(<lorawan::default_crypto::DefaultCrypto as lorawan::keys::Crypto>::encrypt_block, stub_encrypt_block)]
#[kani::stub(crate::mac::uplink::Uplink::clear_mac_commands, stub_clear_record)]
#[kani::unwind(20)]
fn c12_prepare_buffer_data_q1_a2() { prepare_buffer_contract(false, 1, 2) }
// @verif props=C06,C12,C08,C04 obligation=Session::prepare_buffer.contract[FPort>0,queued=2,app=0] label=bounded(lengths) tier=thorough bound="exactly 2 queued MAC-answer bytes and 0 application bytes (content symbolic), region EU868; any other session state"
#[kani::proof]
#[kani::stub(lorawan::default_crypto::DefaultCrypto::new, stub_crypto_new)]
#[kani::stub(<lorawan::default_crypto::DefaultCrypto as lorawan::keys::Crypto>::calculate_mic, stub_calculate_mic)]
#[kani::stub(<lorawan::default_crypto::DefaultCrypto as lorawan::keys::Crypto>::encrypt_block, stub_encrypt_block)]
#[kani::stub(crate::mac::uplink::Uplink::clear_mac_commands, stub_clear_record)]
#[kani::unwind(20)]
fn c12_prepare_buffer_data_q2_a0() { prepare_buffer_contract(false, 2, 0) }
// @verif props=C06,C12,C08,C04 obligation=Session::prepare_buffer.contract[FPort>0,queued=2,app=1] label=bounded(lengths) tier=quick bound="exactly 2 queued MAC-answer bytes and 1 application bytes (content symbolic), region EU868; any other session state"
#[kani::proof]
#[kani::stub(lorawan::default_crypto::DefaultCrypto::new, stub_crypto_new)]
#[kani::stub(<lorawan::default_crypto::DefaultCrypto as lorawan::keys::Crypto>::calculate_mic, stub_calculate_mic)]
#[kani::stub(<lorawan::default_crypto::DefaultCrypto as lorawan::keys::Crypto>::encrypt_block, stub_encrypt_block)]
#[kani::stub(crate::mac::uplink::Uplink::clear_mac_commands, stub_clear_record)]
#[kani::unwind(20)]
fn c12_prepare_buffer_data_q2_a1() { prepare_buffer_contract(false, 2, 1) }
// @verif props=C06,C12,C08,C04 obligation=Session::prepare_buffer.contract[FPort>0,queued=2,app=2] label=bounded(lengths) tier=thorough bound="exactly 2 queued MAC-answer bytes and 2 application bytes (content symbolic), region EU868; any other session state"
#[kani::proof]
#[kani::stub(lorawan::default_crypto::DefaultCrypto::new, stub_crypto_new)]
#[kani::stub(<lorawan::default_crypto::DefaultCrypto as lorawan::keys::Crypto>::calculate_mic, stub_calculate_mic)]
#[kani::stub(<lorawan::default_crypto::DefaultCrypto as lorawan::keys::Crypto>::encrypt_block, stub_encrypt_block)]
#[kani::stub(crate::mac::uplink::Uplink::clear_mac_commands, stub_clear_record)]
#[kani::unwind(20)]
fn c12_prepare_buffer_data_q2_a2() { prepare_buffer_contract(false, 2, 2) }
// @verif props=C06,C12,C08,C04 obligation=Session::prepare_buffer.contract[FPort>0,queued=15,app=0] label=bounded(lengths) tier=thorough bound="exactly 15 queued MAC-answer bytes and 0 application bytes (content symbolic), region EU868; any other session state"
#[kani::proof]
#[kani::stub(lorawan::default_crypto::DefaultCrypto::new, stub_crypto_new)]
#[kani::stub(<lorawan::default_crypto::DefaultCrypto as lorawan::keys::Crypto>::calculate_mic, stub_calculate_mic)]
#[kani::stub(<lorawan::default_crypto::DefaultCrypto as lorawan::keys::Crypto>::encrypt_block, stub_encrypt_block)]
#[kani::stub(crate::mac::uplink::Uplink::clear_mac_commands, stub_clear_record)]
#[kani::unwind(20)]
fn c12_prepare_buffer_data_q15_a0() { prepare_buffer_contract(false, 15, 0) }
// @verif props=C06,C12,C08,C04 obligation=Session::prepare_buffer.contract[FPort>0,queued=15,app=1] label=bounded(lengths) tier=thorough bound="exactly 15 queued MAC-answer bytes and 1 application bytes (content symbolic), region EU868; any other session state"
#[kani::proof]
#[kani::stub(lorawan::default_crypto::DefaultCrypto::new, stub_crypto_new)]
#[kani::stub(<lorawan::default_crypto::DefaultCrypto as lorawan::keys::Crypto>::calculate_mic, stub_calculate_mic)]
#[kani::stub(<lorawan::default_crypto::DefaultCrypto as lorawan::keys::Crypto>::encrypt_block, stub_encrypt_block)]
#[kani::stub(crate::mac::uplink::Uplink::clear_mac_commands, stub_clear_record)]
#[kani::unwind(20)]
fn c12_prepare_buffer_data_q15_a1() { prepare_buffer_contract(false, 15, 1) }
// @verif props=C06,C12,C08,C04 obligation=Session::prepare_buffer.contract[FPort>0,queued=15,app=2] label=bounded(lengths) tier=quick bound="exactly 15 queued MAC-answer bytes and 2 application bytes (content symbolic), region EU868; any other session state"
#[kani::proof]
#[kani::stub(lorawan::default_crypto::DefaultCrypto::new, stub_crypto_new)]
#[kani::stub(<lorawan::default_crypto::DefaultCrypto as lorawan::keys::Crypto>::calculate_mic, stub_calculate_mic)]
#[kani::stub(<lorawan::default_crypto::DefaultCrypto as lorawan::keys::Crypto>::encrypt_block, stub_encrypt_block)]
#[kani::stub(crate::mac::uplink::Uplink::clear_mac_commands, stub_clear_record)]
#[kani::unwind(20)]
fn c12_prepare_buffer_data_q15_a2() { prepare_buffer_contract(false, 15, 2) }
// @verif props=C06,C12,C08,C04 obligation=Session::prepare_buffer.contract[FPort0,queued=0] label=bounded(lengths) tier=quick bound="exactly 0 queued MAC-answer bytes sent as FRMPayload on port 0 (content symbolic), region EU868"
#[kani::proof]
#[kani::stub(lorawan::default_crypto::DefaultCrypto::new, stub_crypto_new)]
#[kani::stub(<lorawan::default_crypto::DefaultCrypto as lorawan::keys::Crypto>::calculate_mic, stub_calculate_mic)]
#[kani::stub(<lorawan::default_crypto::DefaultCrypto as lorawan::keys::Crypto>::encrypt_block, stub_encrypt_block)]
#[kani::stub(crate::mac::uplink::Uplink::clear_mac_commands, stub_clear_record)]
#[kani::unwind(20)]
fn c12_prepare_buffer_port0_q0() { prepare_buffer_contract(true, 0, 0) }
// @verif props=C06,C12,C08,C04 obligation=Session::prepare_buffer.contract[FPort0,queued=1] label=bounded(lengths) tier=thorough bound="exactly 1 queued MAC-answer bytes sent as FRMPayload on port 0 (content symbolic), region EU868"
#[kani::proof]
#[kani::stub(lorawan::default_crypto::DefaultCrypto::new, stub_crypto_new)]
#[kani::stub(<lorawan::default_crypto::DefaultCrypto as lorawan::keys::Crypto>::calculate_mic, stub_calculate_mic)]
#[kani::stub(<lorawan::default_crypto::DefaultCrypto as lorawan::keys::Crypto>::encrypt_block, stub_encrypt_block)]
#[kani::stub(crate::mac::uplink::Uplink::clear_mac_commands, stub_clear_record)]
#[kani::unwind(20)]
fn c12_prepare_buffer_port0_q1() { prepare_buffer_contract(true, 1, 0) }
// @verif props=C06,C12,C08,C04 obligation=Session::prepare_buffer.contract[FPort0,queued=2] label=bounded(lengths) tier=quick bound="exactly 2 queued MAC-answer bytes sent as FRMPayload on port 0 (content symbolic), region EU868"
#[kani::proof]
#[kani::stub(lorawan::default_crypto::DefaultCrypto::new, stub_crypto_new)]
#[kani::stub(<lorawan::default_crypto::DefaultCrypto as lorawan::keys::Crypto>::calculate_mic, stub_calculate_mic)]
#[kani::stub(<lorawan::default_crypto::DefaultCrypto as lorawan::keys::Crypto>::encrypt_block, stub_encrypt_block)]
#[kani::stub(crate::mac::uplink::Uplink::clear_mac_commands, stub_clear_record)]
#[kani::unwind(20)]
fn c12_prepare_buffer_port0_q2() { prepare_buffer_contract(true, 2, 0) }
// @verif props=C06,C12,C08,C04 obligation=Session::prepare_buffer.contract[FPort0,queued=8] label=bounded(lengths) tier=thorough bound="exactly 8 queued MAC-answer bytes sent as FRMPayload on port 0 (content symbolic), region EU868"
#[kani::proof]
#[kani::stub(lorawan::default_crypto::DefaultCrypto::new, stub_crypto_new)]
#[kani::stub(<lorawan::default_crypto::DefaultCrypto as lorawan::keys::Crypto>::calculate_mic, stub_calculate_mic)]
#[kani::stub(<lorawan::default_crypto::DefaultCrypto as lorawan::keys::Crypto>::encrypt_block, stub_encrypt_block)]
#[kani::stub(crate::mac::uplink::Uplink::clear_mac_commands, stub_clear_record)]
#[kani::unwind(20)]
fn c12_prepare_buffer_port0_q8() { prepare_buffer_contract(true, 8, 0) }
// @verif props=C06,C12,C08,C04 obligation=Session::prepare_buffer.contract[FPort0,queued=15] label=bounded(lengths) tier=quick bound="exactly 15 queued MAC-answer bytes sent as FRMPayload on port 0 (content symbolic), region EU868"
#[kani::proof]
#[kani::stub(lorawan::default_crypto::DefaultCrypto::new, stub_crypto_new)]
#[kani::stub(<lorawan::default_crypto::DefaultCrypto as lorawan::keys::Crypto>::calculate_mic, stub_calculate_mic)]
#[kani::stub(<lorawan::default_crypto::DefaultCrypto as lorawan::keys::Crypto>::encrypt_block, stub_encrypt_block)]
#[kani::stub(crate::mac::uplink::Uplink::clear_mac_commands, stub_clear_record)]
#[kani::unwind(20)]
fn c12_prepare_buffer_port0_q15() { prepare_buffer_contract(true, 15, 0) }
