// C14 (sequential part): LoRa<RK, DLY> against an ABSTRACT CHIP (A-chip): a RadioKind contract-stub that tracks what a real
// chip would be doing -- asleep or not, configuration lost or not, which parameters were programmed since the last cold start --
// and may fail any command.  Also C18: LoRa::{rx, get_rx_result} hand back exactly what get_rx_payload returned.
// @inject file=lora-phy/src/lib.rs mod=verif_lora
// @job pkg=lora-phy zflags=function-contracts,stubbing
// @requires common_tape phy_common
use super::*;
use crate::verif_tape as tape;
use crate::verif_phy::MockDelay;

pub(crate) struct Chip {
    pub asleep: bool,
    /// programmed since the last cold start / reset
    pub inited: bool, pub irq: bool, pub modulation: bool, pub packet: bool, pub channel: bool, pub payload: bool,
    pub standby: bool,
    pub cmds: u32, pub cmds_while_asleep: u32, pub started_unconfigured: bool,
    pub fault_at: u32,          // the command with this ordinal fails (u32::MAX: none)
    pub irq_polls: u8,
    pub done_seen: bool,       // the chip reported RxDone/TxDone
    pub listen_only: bool,     // harness flag: the operation under test is LoRa::listen (RSSI measurement: no packet engine needed)
    /// VALUES last programmed (C17: what reaches the chip is what the caller requested): RF frequency, TX power,
    /// modulation-parameter frequency, and the frequency / RX mode in force when a transmission / reception was started
    pub freq: u32, pub power: i32, pub power_tx_prep: bool, pub power_freq: Option<u32>, pub started_freq: u32, pub started_rx: Option<RxMode>, pub payload_len: usize, pub pkt_len: u8,
    pub mod_sf: Option<SpreadingFactor>, pub mod_bw: Option<Bandwidth>, pub mod_freq: u32,
}
impl Chip {
    fn cmd(&mut self) -> Result<(), RadioError> {
        let n = self.cmds;
        self.cmds += 1;
        if self.asleep { self.cmds_while_asleep += 1; }
        if n == self.fault_at { Err(RadioError::SPI) } else { Ok(()) }
    }
    fn lose_config(&mut self) { self.inited = false; self.irq = false; self.modulation = false; self.packet = false; self.channel = false; self.payload = false; }
}
impl RadioKind for Chip {
    fn init_lora(&mut self, _sync_word: u16) -> Result<(), RadioError> { self.cmd()?; self.inited = true; Ok(()) }
    fn set_lora_sync_word(&mut self, _s: u16) -> Result<(), RadioError> { self.cmd() }
    fn create_modulation_params(&self, sf: SpreadingFactor, bw: Bandwidth, cr: CodingRate, f: u32) -> Result<ModulationParams, RadioError> {
        Ok(ModulationParams { spreading_factor: sf, bandwidth: bw, coding_rate: cr, low_data_rate_optimize: 0, frequency_in_hz: f })
    }
    fn create_packet_params(&self, p: u16, ih: bool, len: u8, crc: bool, iq: bool, _m: &ModulationParams) -> Result<PacketParams, RadioError> {
        Ok(PacketParams { preamble_length: p, implicit_header: ih, payload_length: len, crc_on: crc, iq_inverted: iq })
    }
    fn reset(&mut self, _d: &mut impl DelayNs) -> Result<(), RadioError> { self.asleep = false; self.lose_config(); self.standby = true; if self.cmds == self.fault_at { self.cmds += 1; Err(RadioError::Reset) } else { self.cmds += 1; Ok(()) } }
    fn ensure_ready(&mut self, mode: RadioMode) -> Result<(), RadioError> {
        // waking is what ensure_ready(Sleep | duty cycle) is for; for any other mode it only waits on BUSY
        match mode { RadioMode::Sleep | RadioMode::Receive(RxMode::DutyCycle(_)) => { self.asleep = false; } _ => {} }
        Ok(())
    }
    fn set_standby(&mut self) -> Result<(), RadioError> { self.cmd()?; self.standby = true; Ok(()) }
    fn set_sleep(&mut self, warm: bool, _d: &mut impl DelayNs) -> Result<(), RadioError> { self.cmd()?; self.asleep = true; self.standby = false; if !warm { self.lose_config(); } Ok(()) }
    fn set_tx_rx_buffer_base_address(&mut self, _t: usize, _r: usize) -> Result<(), RadioError> { self.cmd() }
    fn set_tx_power_and_ramp_time(&mut self, p: i32, m: Option<&ModulationParams>, t: bool) -> Result<(), RadioError> { self.cmd()?; self.power = p; self.power_tx_prep = t; self.power_freq = m.map(|x| x.frequency_in_hz); Ok(()) }
    fn set_modulation_params(&mut self, m: &ModulationParams) -> Result<(), RadioError> { self.cmd()?; self.modulation = true; self.mod_sf = Some(m.spreading_factor); self.mod_bw = Some(m.bandwidth); self.mod_freq = m.frequency_in_hz; Ok(()) }
    fn set_packet_params(&mut self, p: &PacketParams) -> Result<(), RadioError> { self.cmd()?; self.packet = true; self.pkt_len = p.payload_length; Ok(()) }
    fn calibrate_image(&mut self, _f: u32) -> Result<(), RadioError> { self.cmd() }
    fn set_channel(&mut self, f: u32) -> Result<(), RadioError> { self.cmd()?; self.channel = true; self.freq = f; Ok(()) }
    fn set_payload(&mut self, p: &[u8]) -> Result<(), RadioError> { self.cmd()?; self.payload = true; self.payload_len = p.len(); Ok(()) }
    fn do_tx(&mut self) -> Result<(), RadioError> {
        if !(self.inited && self.irq && self.modulation && self.packet && self.channel && self.payload) { self.started_unconfigured = true; }
        self.cmd()?; self.standby = false; self.started_freq = self.freq; Ok(())
    }
    fn do_rx(&mut self, _m: RxMode) -> Result<(), RadioError> {
        if !(self.inited && self.modulation && self.channel && (self.listen_only || (self.irq && self.packet))) { self.started_unconfigured = true; }
        self.cmd()?; self.standby = false; self.started_freq = self.freq; self.started_rx = Some(_m); Ok(())
    }
    fn get_rx_payload(&mut self, _p: &PacketParams, buf: &mut [u8]) -> Result<u8, RadioError> {
        self.cmd()?;
        let n = tape::stub_u8();
        if n as usize > buf.len() { return Err(RadioError::PayloadSizeMismatch(n as usize, buf.len())); }
        let mut i = 0; while i < buf.len() { if i < n as usize { buf[i] = 0x5A; } i += 1; }
        unsafe { LAST_LEN = n; }
        Ok(n)
    }
    fn get_rx_packet_status(&mut self) -> Result<PacketStatus, RadioError> { self.cmd()?; let st = PacketStatus { rssi: -(tape::stub_u8() as i16), snr: tape::stub_u8() as i8 as i16 }; unsafe { LAST_RSSI = st.rssi; LAST_SNR = st.snr; } Ok(st) }
    fn get_rssi(&mut self) -> Result<i16, RadioError> { self.cmd()?; Ok(0) }
    fn do_cad(&mut self, _m: &ModulationParams) -> Result<(), RadioError> { self.cmd()?; self.standby = false; Ok(()) }
    fn set_irq_params(&mut self, _m: Option<RadioMode>) -> Result<(), RadioError> { self.cmd()?; self.irq = true; Ok(()) }
    fn set_tx_continuous_wave_mode(&mut self) -> Result<(), RadioError> { self.cmd() }
    fn await_irq(&mut self) -> Result<(), RadioError> { Ok(()) }
    fn process_irq_event(&mut self, _mode: RadioMode, cad: Option<&mut bool>, _clear: bool) -> Result<Option<IrqState>, RadioError> {
        self.cmd()?;
        self.irq_polls += 1;
        let k = tape::stub_u8() % 4;
        if let Some(c) = cad { *c = tape::stub_bool(); return if k == 0 { Err(RadioError::ReceiveTimeout) } else { Ok(Some(IrqState::Done)) }; }
        // at most two spurious wake-ups, then the interrupt is conclusive
        match if self.irq_polls > 2 && k >= 2 { 1 } else { k } { 0 => Err(RadioError::ReceiveTimeout), 1 => { self.done_seen = true; self.standby = true; Ok(Some(IrqState::Done)) }, 2 => Ok(Some(IrqState::PreambleReceived)), _ => Ok(None) }
    }
    fn get_irq_state(&mut self, _m: RadioMode, _c: Option<&mut bool>) -> Result<Option<IrqState>, RadioError> { self.cmd()?; Ok(None) }
    fn clear_irq_status(&mut self) -> Result<(), RadioError> { self.cmd() }
}
pub(crate) static mut LAST_LEN: u8 = 0;
pub(crate) static mut LAST_RSSI: i16 = 0;
pub(crate) static mut LAST_SNR: i16 = 0;

fn any_rx_mode() -> RxMode { match tape::below(3) { 0 => RxMode::Single(tape::u16()), 1 => RxMode::Continuous, _ => RxMode::DutyCycle(DutyCycleParams { rx_time: 1, sleep_time: 1 }) } }
fn any_radio_mode() -> RadioMode {
    match tape::below(7) { 0 => RadioMode::Sleep, 1 => RadioMode::Standby, 2 => RadioMode::FrequencySynthesis, 3 => RadioMode::Transmit, 4 => RadioMode::Receive(any_rx_mode()), 5 => RadioMode::Listen, _ => RadioMode::ChannelActivityDetection }
}
/// the driver's bookkeeping agrees with the chip: it knows when the chip sleeps and when its configuration is gone
fn consistent(l: &LoRa<Chip, MockDelay>) -> bool {
    let c = &l.radio_kind;
    (l.radio_mode == RadioMode::Sleep) == c.asleep
        && (c.inited || l.cold_start)
        // a prepared transmission / reception / CAD means the chip was programmed for it (established by prepare_for_*)
        && (l.radio_mode != RadioMode::Transmit || (c.inited && c.irq && c.modulation && c.packet && c.channel && c.payload))
        && (!matches!(l.radio_mode, RadioMode::Receive(_)) || (c.inited && c.irq && c.modulation && c.packet && c.channel))
        && (l.radio_mode != RadioMode::ChannelActivityDetection || (c.inited && c.irq && c.modulation && c.channel))
}
pub(crate) fn any_lora() -> LoRa<Chip, MockDelay> {
    let chip = Chip { asleep: tape::boolean(), inited: tape::boolean(), irq: tape::boolean(), modulation: tape::boolean(), packet: tape::boolean(), channel: tape::boolean(), payload: tape::boolean(),
        standby: tape::boolean(), cmds: 0, cmds_while_asleep: 0, started_unconfigured: false, fault_at: if tape::boolean() { tape::below(24) as u32 } else { u32::MAX }, irq_polls: 0, done_seen: false, listen_only: false,
        freq: tape::u32(), power: tape::i32(), power_tx_prep: false, power_freq: None, started_freq: 0, started_rx: None, payload_len: 0, pkt_len: 0, mod_sf: None, mod_bw: None, mod_freq: 0 };
    let l = LoRa { radio_kind: chip, delay: MockDelay, radio_mode: any_radio_mode(), sync_word: 0x3444, cold_start: tape::boolean(), calibrate_image: tape::boolean() };
    kani::assume(consistent(&l));
    // a chip that lost its configuration has lost all of it
    kani::assume(l.radio_kind.inited || !(l.radio_kind.irq || l.radio_kind.modulation || l.radio_kind.packet || l.radio_kind.channel || l.radio_kind.payload));
    l
}
fn mp() -> ModulationParams { ModulationParams { spreading_factor: SpreadingFactor::_7, bandwidth: Bandwidth::_125KHz, coding_rate: CodingRate::_4_5, low_data_rate_optimize: 0, frequency_in_hz: tape::u32() } }
pub(crate) fn pp() -> PacketParams { PacketParams { preamble_length: 8, implicit_header: false, payload_length: 0, crc_on: true, iq_inverted: false } }

/// one API call from any consistent state; the invariants every call must keep
fn api_step(op: usize, witness: bool) {
    tape::init();
    let mut l = any_lora();
    l.radio_kind.listen_only = op == 8;
    let mode0 = l.radio_mode;
    let m = mp();
    let mut p = pp();
    let mut buf = [0u8; 16];
    let r: Result<(), RadioError> = match op {
        0 => l.init(),
        1 => l.sleep(tape::boolean()),
        2 => l.prepare_for_tx(&m, &mut p, 14, &[1, 2, 3]),
        3 => l.tx(),
        4 => l.prepare_for_rx(any_rx_mode(), &m, &p),
        5 => l.start_rx(),
        6 => l.complete_rx(&p, &mut buf).map(|_| ()),
        7 => l.rx_switch_channel(tape::u32()),
        8 => l.listen(tape::u32(), Bandwidth::_125KHz),
        9 => l.prepare_for_cad(&m),
        10 => l.cad(&m).map(|_| ()),
        _ => l.set_lora_sync_word(0x1424),
    };
    let c = &l.radio_kind;
    // (1) wrong-mode calls are refused without commanding the chip
    let wrong_mode = match op { 3 => mode0 != RadioMode::Transmit, 5 | 6 | 7 => !matches!(mode0, RadioMode::Receive(_)), 10 => mode0 != RadioMode::ChannelActivityDetection, _ => false };
    if wrong_mode { assert!(matches!(r, Err(RadioError::InvalidRadioMode)) && c.cmds == 0 && l.radio_mode == mode0, "C14 an operation invoked in the wrong mode is refused without commanding the chip"); }
    // (2) the chip is never commanded while asleep without first being woken
    assert!(c.cmds_while_asleep == 0 || matches!(op, 5 | 6 | 7 | 3 | 10) && false, "C14 the chip is never commanded while asleep");
    // (3) nothing is started on a chip that lost its configuration
    assert!(!c.started_unconfigured, "C14 after a cold sleep or reset everything a transmission/reception depends on is programmed again before it starts");
    // (4) the driver's view stays consistent with the chip, on success and on failure
    if r.is_ok() { assert!(consistent(&l), "C14 after a successful call the driver knows whether the chip sleeps / lost its configuration"); }
    // (5) a failed or timed-out tx / single reception / cad leaves chip and driver in standby (if the recovery commands themselves succeed)
    if r.is_err() && !wrong_mode && matches!(op, 3 | 10) && c.fault_at >= c.cmds {
        assert!(l.radio_mode == RadioMode::Standby && c.standby, "C14 after a failed or timed-out operation the chip is left in standby and the driver knows it");
    }
    // (KF-C14-1, fixed in /repo: an error while fetching the packet AFTER the chip reported RxDone is now part of the
    // class below; `witness` is kept as a parameter only so that the harness list stays stable)
    let _ = witness;
    if r.is_err() && !wrong_mode && op == 6 && mode0 != RadioMode::Receive(RxMode::Continuous) && c.fault_at >= c.cmds {
        assert!(l.radio_mode == RadioMode::Standby && c.standby, "C14 a failed or timed-out single reception leaves the chip in standby and the driver knows it");
    }
    kani::cover!(witness || r.is_ok(), "verif-reached: call succeeded");
    kani::cover!(r.is_err(), "verif-maybe: call failed");
}
// @verif props=C14 obligation=LoRa::init.step_invariants label=proved-complete tier=quick bound="any consistent (driver, abstract chip) state, one fault at any command position; sequential executions of the de-async'd text (Y1)"
#[kani::proof]
#[kani::unwind(20)]
fn c14_lora_init() { api_step(0, false) }
// @verif props=C14 obligation=LoRa::sleep.step_invariants label=proved-complete tier=quick bound="any consistent (driver, abstract chip) state, one fault at any command position; sequential executions of the de-async'd text (Y1)"
#[kani::proof]
#[kani::unwind(20)]
fn c14_lora_sleep() { api_step(1, false) }
// @verif props=C14 obligation=LoRa::prepare_for_tx.step_invariants label=proved-complete tier=quick bound="any consistent (driver, abstract chip) state, one fault at any command position; sequential executions of the de-async'd text (Y1)"
#[kani::proof]
#[kani::unwind(20)]
fn c14_lora_prepare_for_tx() { api_step(2, false) }
// @verif props=C14 obligation=LoRa::tx.step_invariants label=bounded(3-polls) tier=quick bound="any consistent (driver, abstract chip) state, one fault at any command position, at most 2 inconclusive IRQ polls; sequential executions of the de-async'd text (Y1)"
#[kani::proof]
#[kani::unwind(20)]
fn c14_lora_tx() { api_step(3, false) }
// @verif props=C14 obligation=LoRa::prepare_for_rx.step_invariants label=proved-complete tier=quick bound="any consistent (driver, abstract chip) state, one fault at any command position; sequential executions of the de-async'd text (Y1)"
#[kani::proof]
#[kani::unwind(20)]
fn c14_lora_prepare_for_rx() { api_step(4, false) }
// @verif props=C14 obligation=LoRa::start_rx.step_invariants label=proved-complete tier=quick bound="any consistent (driver, abstract chip) state, one fault at any command position; sequential executions of the de-async'd text (Y1)"
#[kani::proof]
#[kani::unwind(20)]
fn c14_lora_start_rx() { api_step(5, false) }
// @verif props=C14 obligation=LoRa::complete_rx.step_invariants label=bounded(3-polls) tier=quick bound="any consistent (driver, abstract chip) state, one fault at any command position, at most 2 inconclusive IRQ polls; sequential executions of the de-async'd text (Y1)"
#[kani::proof]
#[kani::unwind(20)]
fn c14_lora_complete_rx() { api_step(6, false) }
// @verif props=C14 obligation=LoRa::rx_switch_channel.step_invariants label=proved-complete tier=quick bound="any consistent (driver, abstract chip) state, one fault at any command position; sequential executions of the de-async'd text (Y1)"
#[kani::proof]
#[kani::unwind(20)]
fn c14_lora_rx_switch_channel() { api_step(7, false) }
// @verif props=C14 obligation=LoRa::listen.step_invariants label=proved-complete tier=quick bound="any consistent (driver, abstract chip) state, one fault at any command position; sequential executions of the de-async'd text (Y1)"
#[kani::proof]
#[kani::unwind(20)]
fn c14_lora_listen() { api_step(8, false) }
// @verif props=C14 obligation=LoRa::prepare_for_cad.step_invariants label=proved-complete tier=quick bound="any consistent (driver, abstract chip) state, one fault at any command position; sequential executions of the de-async'd text (Y1)"
#[kani::proof]
#[kani::unwind(20)]
fn c14_lora_prepare_for_cad() { api_step(9, false) }
// @verif props=C14 obligation=LoRa::cad.step_invariants label=proved-complete tier=quick bound="any consistent (driver, abstract chip) state, one fault at any command position; sequential executions of the de-async'd text (Y1)"
#[kani::proof]
#[kani::unwind(20)]
fn c14_lora_cad() { api_step(10, false) }
// @verif props=C14 obligation=LoRa::set_lora_sync_word.step_invariants label=proved-complete tier=quick bound="any consistent (driver, abstract chip) state, one fault at any command position; sequential executions of the de-async'd text (Y1)"
#[kani::proof]
#[kani::unwind(20)]
fn c14_lora_set_lora_sync_word() { api_step(11, false) }

// C17 (and C09/C10 hand-off): the VALUES that reach the chip are the ones the caller requested -- frequency, power, payload
// length, receive mode -- from any consistent driver/chip state, whatever was programmed before
// @verif props=C17,C09 obligation=LoRa::prepare_for_tx+tx.values_passed label=bounded(3-polls) tier=quick bound="any consistent (driver, abstract chip) state, any frequency / power, payload 0..3 bytes, one fault at any command position, at most 2 inconclusive IRQ polls"
#[kani::proof]
#[kani::unwind(20)]
fn c17_lora_tx_values() {
    tape::init();
    let mut l = any_lora();
    let m = mp();
    let mut p = pp();
    let pw = tape::i32();
    let len = tape::below(4);
    let data = [1u8, 2, 3];
    let r = l.prepare_for_tx(&m, &mut p, pw, &data[..len]);
    if r.is_ok() {
        {
            let c = &l.radio_kind;
            assert!(c.freq == m.frequency_in_hz, "C17 the RF frequency programmed for a transmission is the requested one");
            assert!(c.power == pw && c.power_tx_prep && c.power_freq == Some(m.frequency_in_hz), "C17 the TX power handed to the chip driver is the requested one (with the channel frequency for the PA validity check)");
            assert!(c.payload_len == len && c.pkt_len as usize == len && p.payload_length as usize == len, "the packet length programmed equals the payload written to the FIFO");
        }
        let r2 = l.tx();
        if r2.is_ok() { assert!(l.radio_kind.started_freq == m.frequency_in_hz, "C17 the transmission starts on the requested frequency"); }
        kani::cover!(r2.is_ok(), "verif-reached: transmitted");
    }
    kani::cover!(r.is_ok(), "verif-reached: prepared");
}
// @verif props=C17,C10 obligation=LoRa::prepare_for_rx+start_rx+rx_switch_channel.values_passed label=proved-complete tier=quick bound="any consistent (driver, abstract chip) state, any frequency, every RX mode (any symbol count), one fault at any command position"
#[kani::proof]
#[kani::unwind(20)]
fn c17_lora_rx_values() {
    tape::init();
    let mut l = any_lora();
    let m = mp();
    let p = pp();
    let mode = any_rx_mode();
    let r = l.prepare_for_rx(mode, &m, &p);
    if r.is_ok() {
        assert!(l.radio_kind.freq == m.frequency_in_hz && l.radio_mode == RadioMode::Receive(mode), "C17 the RF frequency programmed for a reception is the requested one; the driver remembers the requested receive mode");
        let r2 = l.start_rx();
        if r2.is_ok() {
            assert!(l.radio_kind.started_freq == m.frequency_in_hz && l.radio_kind.started_rx == Some(mode), "C17 the reception starts on the requested frequency, in the requested mode (symbol-count timeout included)");
            let f2 = tape::u32();
            let r3 = l.rx_switch_channel(f2);
            if r3.is_ok() { assert!(l.radio_kind.started_freq == f2 && l.radio_kind.started_rx == Some(mode), "C17 after a channel switch the reception runs on the new frequency in the same mode"); }
            kani::cover!(r3.is_ok(), "verif-reached: switched");
        }
        kani::cover!(r2.is_ok(), "verif-reached: started");
    }
    kani::cover!(r.is_ok(), "verif-reached: prepared");
}
// @verif props=C17 obligation=LoRa::listen.values_passed label=proved-complete tier=quick bound="any consistent (driver, abstract chip) state, any frequency, one fault at any command position"
#[kani::proof]
#[kani::unwind(20)]
fn c17_lora_listen_values() {
    tape::init();
    let mut l = any_lora();
    l.radio_kind.listen_only = true;
    let f = tape::u32();
    let r = l.listen(f, Bandwidth::_125KHz);
    if r.is_ok() { assert!(l.radio_kind.started_freq == f && l.radio_kind.started_rx == Some(RxMode::Continuous), "C17 RSSI listening runs on the requested frequency, continuously"); }
    kani::cover!(r.is_ok(), "verif-reached: listening");
}

// C18: the physical layer hands back exactly the length the chip driver reported, and only with a caller buffer that holds it
// @verif props=C18,C14 obligation=LoRa::rx.returns_driver_length label=bounded(3-polls) tier=quick bound="caller buffer of 16 bytes, any reported length, at most 2 inconclusive IRQ polls"
#[kani::proof]
#[kani::unwind(18)]
fn c18_lora_rx_length() {
    tape::init();
    let mut l = any_lora();
    kani::assume(matches!(l.radio_mode, RadioMode::Receive(_)));
    let mut buf = [0u8; 16];
    let p = pp();
    if let Ok((n, _st)) = l.rx(&p, &mut buf) {
        assert!(n as usize <= 16 && n == unsafe { LAST_LEN }, "C18 LoRa::rx returns the driver's length, which fits the caller's buffer");
        let mut i = 0; while i < 16 { assert!(buf[i] == (if i < n as usize { 0x5A } else { 0 }), "C18 exactly that many bytes were written"); i += 1; }
    }
    kani::cover!(true, "verif-reached: end");
}
