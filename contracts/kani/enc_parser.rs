// Contracts + harnesses for lorawan-encoding parser.rs / creator.rs parts that Verus does not take
// (iterator adapters, slice patterns, closures): C01 JoinAccept builder, C02 JoinAccept path + f_port, C03 parse(), C19 newtypes
// @inject file=lorawan-encoding/src/parser.rs mod=verif_parser
// @job pkg=lorawan zflags=function-contracts,stubbing
// @requires common_tape
use super::*;
use crate::verif_tape as tape;
use crate::creator::JoinAccept;
use crate::keys::NetworkCrypto;

/// recording crypto (A-crypto): a user-supplied Crypto implementation, so no stubbing is needed and the
/// native replay runs exactly the same code
pub(crate) struct RecCrypto;
pub(crate) struct CryptoLog { pub enc_calls: u8, pub dec_calls: u8, pub mic_calls: u8, pub blocks_in: [[u8; 16]; 4], pub blocks_out: [[u8; 16]; 4], pub mic_b0_len: usize, pub mic_b0: [u8; 16], pub mic_data: [u8; 40], pub mic_data_len: usize, pub mic_ret: [u8; 4], pub bad: bool }
pub(crate) static mut LOG: CryptoLog = CryptoLog { enc_calls: 0, dec_calls: 0, mic_calls: 0, blocks_in: [[0; 16]; 4], blocks_out: [[0; 16]; 4], mic_b0_len: 0, mic_b0: [0; 16], mic_data: [0; 40], mic_data_len: 0, mic_ret: [0; 4], bad: false };
fn rec_block(block: &mut [u8]) {
    unsafe {
        let k = (LOG.enc_calls + LOG.dec_calls) as usize;
        if block.len() != 16 || k >= 4 { LOG.bad = true; return; }
        let out: [u8; 16] = tape::stub_arr();
        let mut i = 0;
        while i < 16 { LOG.blocks_in[k][i] = block[i]; LOG.blocks_out[k][i] = out[i]; block[i] = out[i]; i += 1; }
    }
}
impl Crypto for RecCrypto {
    fn encrypt_block(&self, block: &mut [u8]) { rec_block(block); unsafe { LOG.enc_calls += 1; } }
    fn calculate_mic(&self, b0: &[u8], data: &[u8]) -> [u8; 4] {
        unsafe {
            LOG.mic_calls += 1; LOG.mic_b0_len = b0.len(); LOG.mic_data_len = data.len();
            let mut j = 0; while j < 16 { if j < b0.len() { LOG.mic_b0[j] = b0[j]; } j += 1; }
            let mut i = 0; while i < 40 { if i < data.len() { LOG.mic_data[i] = data[i]; } i += 1; }
            LOG.mic_ret
        }
    }
}
impl NetworkCrypto for RecCrypto {
    fn decrypt_block(&self, block: &mut [u8]) { rec_block(block); unsafe { LOG.dec_calls += 1; } }
}

// ================================================================================================ C01: JoinAccept::build_into
fn join_accept_build(cflist: usize) {
    tape::init();
    let jn: [u8; 3] = tape::arr(); let nid: [u8; 3] = tape::arr(); let da: [u8; 4] = tape::arr();
    let dls = tape::u8(); let rxd = tape::u8();
    let freqs: [[u8; 3]; 5] = [tape::arr(), tape::arr(), tape::arr(), tape::arr(), tape::arr()];
    let mask: [u8; 9] = tape::arr();
    let ja = JoinAccept {
        join_nonce: JoinNonce::from_wire_bytes(jn), net_id: NetId::from_wire_bytes(nid), dev_addr: DevAddr::from_wire_bytes(da),
        dl_settings: DLSettings::new(dls), rx_delay: rxd,
        c_f_list: match cflist { 0 => None,
            1 => Some(CfList::DynamicChannel([Frequency::from_wire_bytes(freqs[0]), Frequency::from_wire_bytes(freqs[1]), Frequency::from_wire_bytes(freqs[2]), Frequency::from_wire_bytes(freqs[3]), Frequency::from_wire_bytes(freqs[4])])),
            _ => Some(CfList::FixedChannel(ChannelMask::<9>::from(mask))) },
    };
    let mic: [u8; 4] = tape::arr();
    unsafe { LOG.mic_ret = mic; }
    let blen = tape::below(41);
    // the caller's output buffer holds anything beforehand: nothing of it may survive into the frame (RFU octets are zero)
    let mut buf: [u8; 40] = tape::arr();
    let want = if cflist == 0 { 17 } else { 33 };
    let r = ja.build_into(&mut buf[..blen], &RecCrypto);
    let g = unsafe { &*(&raw const LOG) };
    if blen < want {
        assert!(matches!(r, Err(Error::BufferTooShort)) && g.mic_calls == 0 && g.dec_calls == 0, "C01 a buffer that is too small is refused, nothing is built");
        kani::cover!(true, "verif-reached: refused");
        return;
    }
    let out = r.unwrap();
    assert!(out.len() == want && out[0] == 0x20, "C01 JoinAccept: MHDR 0x20, 17 or 33 bytes");
    // plaintext body per LoRaWAN 1.0.x 6.2.5: JoinNonce | NetID | DevAddr | DLSettings | RxDelay | [CFList]
    let mut body = [0u8; 33];
    body[0] = 0x20;
    body[1..4].copy_from_slice(&jn); body[4..7].copy_from_slice(&nid); body[7..11].copy_from_slice(&da);
    body[11] = dls; body[12] = rxd & 0x0f;
    if cflist == 1 { let mut i = 0; while i < 5 { body[13 + 3 * i..16 + 3 * i].copy_from_slice(&freqs[i]); i += 1; } body[28] = 0; }
    if cflist == 2 { body[13..22].copy_from_slice(&mask); body[28] = 1; }
    // MIC = cmac(AppKey, MHDR | body) computed once over the plaintext
    assert!(g.mic_calls == 1 && g.mic_b0_len == 0 && g.mic_data_len == want - 4, "C01 MIC over MHDR | body");
    let mut i = 0;
    while i < 29 { if i < want - 4 { assert!(g.mic_data[i] == body[i], "C01 JoinAccept body layout (little-endian fields, CFList type octet, RxDelay 4 bits)"); } i += 1; }
    // then body | MIC is wrapped with AES *decrypt*, block by block, MHDR stays clear
    let nblk = (want - 1) / 16;
    assert!(!g.bad && g.dec_calls as usize == nblk && g.enc_calls == 0, "C01 JoinAccept wrapped with aes128_decrypt, one call per 16-byte block");
    let mut k = 0;
    while k < 2 {
        if k < nblk {
            let mut j = 0;
            while j < 16 {
                let p = 1 + 16 * k + j;
                let plain = if p < want - 4 { body[p] } else { mic[p - (want - 4)] };
                assert!(g.blocks_in[k][j] == plain && out[p] == g.blocks_out[k][j], "C01 block k = decrypt(body|MIC block k), placed at 1 + 16k");
                j += 1;
            }
        }
        k += 1;
    }
    kani::cover!(true, "verif-maybe: built");
}
// @verif props=C01 obligation=JoinAccept::build_into.contract[no CFList] label=proved-complete tier=quick unit=JoinAccept::build_into
#[kani::proof]
#[kani::unwind(42)]
fn c01_join_accept_build_plain() { join_accept_build(0) }
// @verif props=C01 obligation=JoinAccept::build_into.contract[CFList type 0] label=proved-complete tier=quick unit=JoinAccept::build_into
#[kani::proof]
#[kani::unwind(42)]
fn c01_join_accept_build_cflist0() { join_accept_build(1) }
// @verif props=C01 obligation=JoinAccept::build_into.contract[CFList type 1] label=proved-complete tier=quick unit=JoinAccept::build_into
#[kani::proof]
#[kani::unwind(42)]
fn c01_join_accept_build_cflist1() { join_accept_build(2) }

// ================================================================================================ C02: JoinAccept decode
fn join_accept_decode(len: usize) {
    tape::init();
    kani::cover!(true, "verif-reached: harness entered");
    let bytes: [u8; 34] = tape::arr();
    let mut buf = bytes;
    let mic: [u8; 4] = tape::arr();
    unsafe { LOG.mic_ret = mic; }
    let r = DecryptedJoinAcceptPayload::check_mic_and_decrypt_in_place(&mut buf[..len], &RecCrypto);
    let g = unsafe { &*(&raw const LOG) };
    let structure_ok = len >= 1 && (bytes[0] >> 5) == 1 && (bytes[0] & 3) == 0 && (len == 17 || len == 33);
    if !structure_ok {
        assert!(r.is_err() && g.enc_calls == 0 && g.mic_calls == 0, "C02 not a JoinAccept: refused before any decryption");
        let e = r.err().unwrap();
        assert!(e == (if len == 0 { Error::TooShort } else if bytes[0] & 3 != 0 { Error::UnsupportedMajorVersion } else if bytes[0] >> 5 != 1 { Error::UnexpectedMessageType } else { Error::InvalidLength }), "C02 the specific structural error");
        kani::cover!(true, "verif-maybe: structure refused");
        return;
    }
    let nblk = (len - 1) / 16;
    assert!(!g.bad && g.enc_calls as usize == nblk && g.dec_calls == 0, "C02 device side: aes128_encrypt per block");
    assert!(g.mic_calls == 1 && g.mic_b0_len == 0 && g.mic_data_len == len - 4, "C02 MIC recomputed over the decrypted MHDR|body");
    let dec: [u8; 34] = { let mut d = bytes; let mut k = 0; while k < 2 { if k < nblk { let mut j = 0; while j < 16 { d[1 + 16 * k + j] = g.blocks_out[k][j]; j += 1; } } k += 1; } d };
    let mic_ok = mic == [dec[len - 4], dec[len - 3], dec[len - 2], dec[len - 1]];
    assert!(r.is_ok() == mic_ok, "C02 JoinAccept authentic exactly when the recomputed MIC equals the decrypted MIC field");
    if let Ok(p) = r {
        assert!(p.join_nonce().as_wire_bytes()[..] == dec[1..4] && p.net_id().as_wire_bytes()[..] == dec[4..7] && p.dev_addr().as_wire_bytes()[..] == dec[7..11], "C02 JoinNonce / NetID / DevAddr");
        assert!(p.dl_settings().raw_value() == dec[11] && p.rx_delay() == dec[12] & 0x0f && p.mic().0[..] == dec[len - 4..len], "C02 DLSettings / RxDelay / MIC");
        match p.c_f_list() {
            None => assert!(len == 17 || dec[28] > 1, "C02 no CFList, or an RFU CFList type"),
            Some(CfList::DynamicChannel(f)) => { assert!(len == 33 && dec[28] == 0, "CFList type 0"); let mut i = 0; while i < 5 { assert!(f[i].as_wire_bytes()[..] == dec[13 + 3 * i..16 + 3 * i], "C02 CFList frequencies"); i += 1; } }
            Some(CfList::FixedChannel(m)) => { assert!(len == 33 && dec[28] == 1, "CFList type 1"); let mut i = 0; while i < 9 { assert!(m.get_index(i) == dec[13 + i], "C02 CFList channel mask"); i += 1; } }
        }
        // session key derivation blocks
        let dn = DevNonce::from_wire_bytes(tape::arr());
        let k1 = p.derive_nwkskey(dn, &RecCrypto);
        let k2 = p.derive_appskey(dn, &RecCrypto);
        let g = unsafe { &*(&raw const LOG) };
        let mut w = 0;
        while w < 2 {
            let b = g.blocks_in[nblk + w];
            assert!(b[0] == w as u8 + 1 && b[1..4] == dec[1..4] && b[4..7] == dec[4..7] && b[7..9] == dn.as_wire_bytes()[..] && b[9..16] == [0u8; 7], "C02/C11 key derivation block");
            w += 1;
        }
        assert!(k1.inner().0 == g.blocks_out[nblk] && k2.inner().0 == g.blocks_out[nblk + 1], "C02/C11 derived keys are the encrypted blocks");
        kani::cover!(true, "verif-maybe: accepted");
    } else {
        kani::cover!(true, "verif-maybe: MIC refused");
    }
}
// @verif props=C02,C03 obligation=DecryptedJoinAcceptPayload::check_mic_and_decrypt_in_place.contract[len=17] label=proved-complete tier=quick
#[kani::proof]
#[kani::unwind(42)]
fn c02_join_accept_decode_17() { join_accept_decode(17) }
// @verif props=C02,C03 obligation=DecryptedJoinAcceptPayload::check_mic_and_decrypt_in_place.contract[len=33] label=proved-complete tier=quick
#[kani::proof]
#[kani::unwind(42)]
fn c02_join_accept_decode_33() { join_accept_decode(33) }
// @verif props=C02,C03 obligation=DecryptedJoinAcceptPayload::check_mic_and_decrypt_in_place.contract[other lengths] label=proved-complete tier=quick bound="lengths 0,1,16,18,32,34 (the length test is an equality with two constants)"
#[kani::proof]
#[kani::unwind(42)]
fn c02_join_accept_decode_badlen() { let l = [0usize, 1, 16, 18, 32, 34]; let mut i = 0; while i < 6 { join_accept_decode(l[i]); i += 1; } }

// ================================================================================================ C02/C03: f_port (assumed in the Verus group), parse(), JoinRequest
// @verif props=C02,C03 obligation=DecryptedDataPayload::f_port.contract label=proved-complete tier=quick unit=DecryptedDataPayload::f_port bound="every data frame of length 12..40: discharges the contract the Verus group assumes for this accessor"
#[kani::proof]
#[kani::unwind(42)]
fn c02_f_port() {
    tape::init();
    let b: [u8; 40] = tape::arr();
    let n = tape::below(41);
    if let Ok(p) = EncryptedDataPayload::parse(&b[..n]) {
        let h = 8 + (b[5] & 0x0f) as usize;
        assert!(n >= 12 && h <= n - 4, "parse accepted => structure holds");
        let want = if h < n - 4 { Some(b[h]) } else { None };
        assert!(p.f_port() == want, "C02 FPort present iff bytes remain between FHDR and MIC, and it is the byte after FOpts");
        let d = DecryptedDataPayload { bytes: &b[..n], layout: p.layout };
        assert!(d.f_port() == want, "C02 same for the decrypted view");
        kani::cover!(want.is_some(), "verif-reached: with port");
        kani::cover!(want.is_none(), "verif-reached: without port");
    }
}

// @verif props=C03,C02 obligation=parser::parse.total+classification label=proved-complete tier=quick bound="every byte string of length 0..40"
#[kani::proof]
#[kani::unwind(42)]
fn c03_parse_total() {
    tape::init();
    let b: [u8; 40] = tape::arr();
    let n = tape::below(41);
    let r = parse(&b[..n]);
    match r {
        Ok(PhyPayload::JoinRequest(j)) => {
            assert!(n == 23 && b[0] >> 5 == 0 && b[0] & 3 == 0, "C03 JoinRequest: 23 bytes, MType 000, Major 0");
            assert!(j.join_eui().as_wire_bytes()[..] == b[1..9] && j.dev_eui().as_wire_bytes()[..] == b[9..17] && j.dev_nonce().as_wire_bytes()[..] == b[17..19] && j.mic().0[..] == b[19..23], "C02 JoinRequest fields");
            kani::cover!(true, "verif-reached: join request");
        }
        Ok(PhyPayload::JoinAccept(a)) => { assert!((n == 17 || n == 33) && b[0] >> 5 == 1 && b[0] & 3 == 0 && a.as_bytes().len() == n, "C03 JoinAccept: 17/33 bytes, MType 001"); kani::cover!(true, "verif-reached: join accept"); }
        Ok(PhyPayload::Data(d)) => { assert!(n >= 12 && (2..=5).contains(&(b[0] >> 5)) && b[0] & 3 == 0 && d.as_bytes().len() == n, "C03 data frame"); let _ = d.fhdr().f_opts(); let _ = d.f_port(); let _ = d.mic(); kani::cover!(true, "verif-reached: data"); }
        Err(_) => { kani::cover!(n == 0, "verif-reached: empty input"); }
    }
}

// ================================================================================================ C19: wire newtypes (binary conversions)
// @verif props=C19,C01 obligation=wire_value_newtype.conversions label=proved-complete tier=quick
#[kani::proof]
fn c19_wire_newtypes() {
    tape::init();
    let v32 = tape::u32(); let v64 = tape::u64(); let v16 = tape::u16();
    let a = DevAddr::from_value(v32);
    assert!(*a.as_wire_bytes() == v32.to_le_bytes() && a.value() == v32 && u32::from(a) == v32 && DevAddr::from(v32) == a, "C19/C01 DevAddr: little-endian on the wire, value round trip");
    let e = DevEui::from_value(v64);
    assert!(*e.as_wire_bytes() == v64.to_le_bytes() && e.value() == v64 && JoinEui::from_value(v64).value() == v64, "C19 DevEUI / JoinEUI");
    let n = DevNonce::from_value(v16);
    assert!(*n.as_wire_bytes() == v16.to_le_bytes() && n.value() == v16, "C19 DevNonce");
    let j = JoinNonce::from_value(v32);
    assert!(j.as_wire_bytes()[..] == v32.to_le_bytes()[..3] && j.value() == v32 & 0x00FF_FFFF && NetId::from_value(v32).value() == v32 & 0x00FF_FFFF, "C19 24-bit fields truncate to the field, never disturb neighbours");
    let f = Frequency::from_hz(v32);
    assert!(f.hz() == (v32 / 100 & 0x00FF_FFFF) * 100, "C19 Frequency in 100 Hz units, 24 bit");
    // keys::DevEui <-> parser::DevEui keep the stored byte order
    let raw: [u8; 8] = tape::arr();
    let k = crate::keys::DevEui::from(raw);
    let p: DevEui = k.into();
    let back: crate::keys::DevEui = p.into();
    assert!(*p.as_wire_bytes() == raw && <[u8; 8]>::from(back) == raw, "C19 keys::DevEui <-> parser::DevEui");
    kani::cover!(true, "verif-reached: end");
}

// ================================================================================================ Kani twins of the Verus units (C01 / C02)
// Same contracts as contracts/verus/codec.vt, stated over the recording crypto and checked bit-precisely for a set of concrete
// lengths with symbolic content.  They decide (with a replayable input) when a Verus obligation stops verifying, and they are
// what still speaks when an edit makes the spliced proof text stale.
use crate::creator::{DataFrame, Payload};
use core::num::NonZeroU8;

fn twin_build(nfopts: usize, plen: usize, port_kind: usize) {
    tape::init();
    kani::cover!(true, "verif-reached: harness entered");
    let ft = [DataFrameType::UnconfirmedUp, DataFrameType::UnconfirmedDown, DataFrameType::ConfirmedUp, DataFrameType::ConfirmedDown][tape::below(4)];
    let addr: [u8; 4] = tape::arr();
    let (adr, adr_ack_req, ack, f_pending) = (tape::boolean(), tape::boolean(), tape::boolean(), tape::boolean());
    let fcnt = tape::u32();
    let fopts: [u8; 15] = tape::arr();
    let data: [u8; 34] = tape::arr();
    let port = tape::u8();
    kani::assume(port != 0);
    let mic: [u8; 4] = tape::arr();
    unsafe { LOG.mic_ret = mic; }
    let payload = match port_kind { 0 => Payload::None, 1 => Payload::Data { f_port: NonZeroU8::new(port).unwrap(), data: &data[..plen] }, _ => Payload::MacCommands(&data[..plen]) };
    let d = DataFrame { frame_type: ft, dev_addr: DevAddr::from_wire_bytes(addr), adr, adr_ack_req, ack, f_pending, fcnt, f_opts: &fopts[..nfopts], payload };
    let mut buf = [0u8; 64];
    let nwk = RecCrypto; let app = RecCrypto;
    let r = d.build_into(&mut buf, &nwk, Some(&app));
    let g = unsafe { &*(&raw const LOG) };
    if port_kind == 2 && nfopts > 0 { assert!(matches!(r, Err(Error::FOptsWithFPortZero)), "C01 FOpts together with port 0 is refused"); kani::cover!(true, "verif-maybe: refused"); return; }
    let out = r.unwrap();
    let up = matches!(ft, DataFrameType::UnconfirmedUp | DataFrameType::ConfirmedUp);
    let mtype = match ft { DataFrameType::UnconfirmedUp => 2u8, DataFrameType::UnconfirmedDown => 3, DataFrameType::ConfirmedUp => 4, DataFrameType::ConfirmedDown => 5 };
    let has_port = port_kind != 0;
    let total = 8 + nfopts + has_port as usize + (if has_port { plen } else { 0 }) + 4;
    assert!(out.len() == total, "C01 frame length");
    assert!(out[0] == mtype << 5 && out[1..5] == addr, "C01 MHDR / DevAddr");
    let fctrl = (nfopts as u8) | ((adr as u8) << 7) | (((adr_ack_req && up) as u8) << 6) | ((ack as u8) << 5) | (((f_pending && !up) as u8) << 4);
    assert!(out[5] == fctrl && out[6] == fcnt as u8 && out[7] == (fcnt >> 8) as u8, "C01 FCtrl / FCnt low half little-endian");
    let mut i = 0; while i < 15 { if i < nfopts { assert!(out[8 + i] == fopts[i], "C01 FOpts in clear"); } i += 1; }
    let dirb = if up { 0u8 } else { 1 };
    let fb = fcnt.to_le_bytes();
    if has_port {
        let st = 8 + nfopts;
        assert!(out[st] == (if port_kind == 1 { port } else { 0 }), "C01 FPort");
        let nblk = (plen + 15) / 16;
        assert!(!g.bad && g.enc_calls as usize == nblk, "C01 one key-stream block per 16 payload bytes");
        let mut k = 0;
        while k < 3 {
            if k < nblk {
                let a = g.blocks_in[k];
                assert!(a[0] == 1 && a[1..5] == [0u8; 4] && a[5] == dirb && a[6..10] == addr && a[10..14] == fb && a[14] == 0 && a[15] == k as u8 + 1,
                    "C01 A_i = 01 | 0^4 | Dir | DevAddr | FCnt (32 bit) | 00 | i  -- each block from its OWN A_i");
            }
            k += 1;
        }
        let mut j = 0;
        while j < 34 { if j < plen { assert!(out[st + 1 + j] == data[j] ^ g.blocks_out[j / 16][j % 16], "C01 FRMPayload = plaintext xor key stream"); } j += 1; }
    } else {
        assert!(g.enc_calls == 0, "no key stream without FRMPayload");
    }
    let b0 = g.mic_b0;
    assert!(g.mic_calls == 1 && g.mic_b0_len == 16 && b0[0] == 0x49 && b0[5] == dirb && b0[6..10] == addr && b0[10..14] == fb && b0[15] as usize == total - 4 && g.mic_data_len == total - 4,
        "C01 MIC over B0 | msg with the full 32-bit counter and the direction bit");
    assert!(out[total - 4..] == mic, "C01 MIC appended");
    kani::cover!(true, "verif-maybe: built");
}
// @verif props=C01 obligation=DataFrame::build_into.twin[fopts=0,payload=0,kind=0] label=bounded(lengths) tier=quick unit=DataFrame::build_into bound="FOpts 0 bytes, FRMPayload 0 bytes (content, header fields, counter, keys' outputs symbolic)"
#[kani::proof]
#[kani::unwind(66)]
fn c01_twin_build_f0_p0_k0() { twin_build(0, 0, 0) }
// @verif props=C01 obligation=DataFrame::build_into.twin[fopts=2,payload=5,kind=1] label=bounded(lengths) tier=quick unit=DataFrame::build_into bound="FOpts 2 bytes, FRMPayload 5 bytes (content, header fields, counter, keys' outputs symbolic)"
#[kani::proof]
#[kani::unwind(66)]
fn c01_twin_build_f2_p5_k1() { twin_build(2, 5, 1) }
// @verif props=C01 obligation=DataFrame::build_into.twin[fopts=0,payload=17,kind=1] label=bounded(lengths) tier=quick unit=DataFrame::build_into bound="FOpts 0 bytes, FRMPayload 17 bytes (content, header fields, counter, keys' outputs symbolic)"
#[kani::proof]
#[kani::unwind(66)]
fn c01_twin_build_f0_p17_k1() { twin_build(0, 17, 1) }
// @verif props=C01 obligation=DataFrame::build_into.twin[fopts=15,payload=33,kind=1] label=bounded(lengths) tier=quick unit=DataFrame::build_into bound="FOpts 15 bytes, FRMPayload 33 bytes (content, header fields, counter, keys' outputs symbolic)"
#[kani::proof]
#[kani::unwind(66)]
fn c01_twin_build_f15_p33_k1() { twin_build(15, 33, 1) }
// @verif props=C01 obligation=DataFrame::build_into.twin[fopts=0,payload=20,kind=2] label=bounded(lengths) tier=quick unit=DataFrame::build_into bound="FOpts 0 bytes, FRMPayload 20 bytes (content, header fields, counter, keys' outputs symbolic)"
#[kani::proof]
#[kani::unwind(66)]
fn c01_twin_build_f0_p20_k2() { twin_build(0, 20, 2) }
// @verif props=C01 obligation=DataFrame::build_into.twin[fopts=1,payload=3,kind=2] label=bounded(lengths) tier=quick unit=DataFrame::build_into bound="FOpts 1 bytes, FRMPayload 3 bytes (content, header fields, counter, keys' outputs symbolic)"
#[kani::proof]
#[kani::unwind(66)]
fn c01_twin_build_f1_p3_k2() { twin_build(1, 3, 2) }

fn twin_check_mic_decrypt(len: usize, fctrl: u8) {
    tape::init();
    kani::cover!(true, "verif-reached: harness entered");
    // FCtrl (hence FOptsLen and every offset) is concrete per harness: symbolic offsets cost minutes of array reasoning
    let bytes: [u8; 32] = { let mut b: [u8; 32] = tape::arr(); b[5] = fctrl; b };
    let mut buf = bytes;
    let fcnt = tape::u32();
    let mic: [u8; 4] = tape::arr();
    unsafe { LOG.mic_ret = mic; }
    let have_app = tape::boolean();
    let nwk = RecCrypto; let app = RecCrypto;
    let r = DecryptedDataPayload::check_mic_and_decrypt_in_place(&mut buf[..len], &nwk, if have_app { Some(&app) } else { None }, fcnt);
    let g = unsafe { &*(&raw const LOG) };
    let wf = len >= 12 && (bytes[0] & 3) == 0 && (2..=5).contains(&(bytes[0] >> 5)) && 8 + (bytes[5] & 15) as usize <= len - 4;
    if !wf { assert!(r.is_err() && g.mic_calls == 0 && g.enc_calls == 0 && buf == bytes, "C02 structurally invalid: refused, buffer untouched"); kani::cover!(true, "verif-maybe: not well-formed"); return; }
    let b0 = g.mic_b0;
    let fb = fcnt.to_le_bytes();
    assert!(g.mic_calls == 1 && b0[0] == 0x49 && b0[5] == (bytes[0] >> 5) & 1 && b0[6..10] == bytes[1..5] && b0[10..14] == fb && b0[15] as usize == len - 4,
        "C02 authenticity is judged for the GIVEN 32-bit counter and the frame's own direction");
    let mic_ok = mic == [bytes[len - 4], bytes[len - 3], bytes[len - 2], bytes[len - 1]];
    let h = 8 + (bytes[5] & 15) as usize;
    let has_port = h < len - 4;
    let fs = if has_port { h + 1 } else { h };
    let plen = len - 4 - fs;
    let needs_app = plen > 0 && has_port && bytes[h] != 0;
    if !mic_ok || (needs_app && !have_app) {
        assert!(r.is_err() && buf == bytes && g.enc_calls == 0, "C02 when checked decoding fails the buffer is byte-identical to what was received");
        kani::cover!(true, "verif-maybe: rejected");
        return;
    }
    assert!(r.is_ok(), "C02 authentic frame with the needed key is decoded");
    // decrypted with (fcnt high half | wire low half)
    let full = (fcnt & 0xFFFF_0000) | (bytes[6] as u32) | ((bytes[7] as u32) << 8);
    let nblk = (plen + 15) / 16;
    assert!(g.enc_calls as usize == nblk, "one key-stream block per 16 payload bytes");
    let mut k = 0;
    while k < 3 { if k < nblk { let a = g.blocks_in[k]; assert!(a[0] == 1 && a[5] == (bytes[0] >> 5) & 1 && a[6..10] == bytes[1..5] && a[10..14] == full.to_le_bytes() && a[15] == k as u8 + 1, "C02 A_i with the reconstructed counter"); } k += 1; }
    let mut j = 0;
    while j < 32 { if j < len { let want = if j >= fs && j < len - 4 { bytes[j] ^ g.blocks_out[(j - fs) / 16][(j - fs) % 16] } else { bytes[j] }; assert!(buf[j] == want, "C02 only FRMPayload is rewritten: plaintext = ciphertext xor key stream"); } j += 1; }
    kani::cover!(true, "verif-maybe: accepted");
}
// @verif props=C02,C03 obligation=DecryptedDataPayload::check_mic_and_decrypt_in_place.twin[len=12,fctrl=0x00] label=bounded(lengths) tier=quick unit=DecryptedDataPayload::check_mic_and_decrypt_in_place bound="frame of 12 bytes with FCtrl 0x00; every other byte, the counter and the MIC outcome symbolic"
#[kani::proof]
#[kani::unwind(42)]
fn c02_twin_check_mic_decrypt_12_00() { twin_check_mic_decrypt(12, 0x00) }
// @verif props=C02,C03 obligation=DecryptedDataPayload::check_mic_and_decrypt_in_place.twin[len=13,fctrl=0x80] label=bounded(lengths) tier=quick unit=DecryptedDataPayload::check_mic_and_decrypt_in_place bound="frame of 13 bytes with FCtrl 0x80; every other byte, the counter and the MIC outcome symbolic"
#[kani::proof]
#[kani::unwind(42)]
fn c02_twin_check_mic_decrypt_13_80() { twin_check_mic_decrypt(13, 0x80) }
// @verif props=C02,C03 obligation=DecryptedDataPayload::check_mic_and_decrypt_in_place.twin[len=20,fctrl=0x03] label=bounded(lengths) tier=quick unit=DecryptedDataPayload::check_mic_and_decrypt_in_place bound="frame of 20 bytes with FCtrl 0x03; every other byte, the counter and the MIC outcome symbolic"
#[kani::proof]
#[kani::unwind(42)]
fn c02_twin_check_mic_decrypt_20_03() { twin_check_mic_decrypt(20, 0x03) }
// @verif props=C02,C03 obligation=DecryptedDataPayload::check_mic_and_decrypt_in_place.twin[len=30,fctrl=0x2f] label=bounded(lengths) tier=quick unit=DecryptedDataPayload::check_mic_and_decrypt_in_place bound="frame of 30 bytes with FCtrl 0x2f; every other byte, the counter and the MIC outcome symbolic"
#[kani::proof]
#[kani::unwind(42)]
fn c02_twin_check_mic_decrypt_30_2f() { twin_check_mic_decrypt(30, 0x2f) }

// ------------------------------------------------------------------------------------------------ direct twin of securityhelpers::encrypt_frm_data_payload
// The Verus unit proves the AES-CTR composition for every length; its proof text is anchored in the loop, so a REWRITE of the
// loop (iterator style, chunking) leaves the Verus route undecided (lost anchor: exit 2, never an alarm) and the build/decode
// twins above become expensive.  This twin calls the helper itself on concrete ranges that span one, two and three key-stream
// blocks and states the LoRaWAN 1.0.x 4.3.3 contract over the recording crypto: S_i = aes(K, A_i) with A_i = 01 | 0^4 | Dir |
// DevAddr | FCnt | 00 | i, every block from its OWN A_i; payload ^= S; nothing outside [start, end) changes.
fn twin_encrypt_range(start: usize, len: usize) {
    tape::init();
    let mut buf: [u8; 48] = [0; 48];
    { let a: [u8; 24] = tape::arr(); let b: [u8; 24] = tape::arr(); let mut i = 0; while i < 24 { buf[i] = a[i]; buf[24 + i] = b[i]; i += 1; } }
    let old = buf;
    let fcnt = tape::u32();
    let end = start + len;
    crate::securityhelpers::encrypt_frm_data_payload(&mut buf[..], start, end, fcnt, &RecCrypto);
    let g = unsafe { &*(&raw const LOG) };
    let nblk = (len + 15) / 16;
    assert!(!g.bad && g.enc_calls as usize == nblk && g.dec_calls == 0 && g.mic_calls == 0, "C01/C02 one AES-encrypted key-stream block per 16 payload bytes, nothing else");
    let fb = fcnt.to_le_bytes();
    let dir = (old[0] & 0x20) >> 5;
    let mut k = 0;
    while k < 3 {
        if k < nblk {
            let a = g.blocks_in[k];
            assert!(a[0] == 1 && a[1..5] == [0u8; 4] && a[5] == dir && a[6..10] == old[1..5] && a[10..14] == fb && a[14] == 0 && a[15] == k as u8 + 1,
                "C01/C02 A_i = 01 | 0^4 | Dir | DevAddr | FCnt (32 bit) | 00 | i -- each key-stream block from its OWN A_i");
        }
        k += 1;
    }
    let mut j = 0;
    while j < 48 {
        if j >= start && j < end { assert!(buf[j] == old[j] ^ g.blocks_out[(j - start) / 16][(j - start) % 16], "C01/C02 FRMPayload xor key stream, block by block"); }
        else { assert!(buf[j] == old[j], "C02 nothing outside the FRMPayload changes"); }
        j += 1;
    }
    kani::cover!(true, "verif-reached: end");
}
// @verif props=C01,C02 obligation=encrypt_frm_data_payload.twin[9..14] label=bounded(lengths) tier=quick unit=encrypt_frm_data_payload bound="payload of 5 bytes at offset 9 (one block); content, header, counter, key-stream outputs symbolic"
#[kani::proof]
#[kani::unwind(50)]
fn c02_twin_encrypt_1block() { twin_encrypt_range(9, 5) }
// @verif props=C01,C02 obligation=encrypt_frm_data_payload.twin[9..26] label=bounded(lengths) tier=quick unit=encrypt_frm_data_payload bound="payload of 17 bytes at offset 9 (two blocks)"
#[kani::proof]
#[kani::unwind(50)]
fn c02_twin_encrypt_2blocks() { twin_encrypt_range(9, 17) }
// @verif props=C01,C02 obligation=encrypt_frm_data_payload.twin[10..43] label=bounded(lengths) tier=quick unit=encrypt_frm_data_payload bound="payload of 33 bytes at offset 10 (three blocks)"
#[kani::proof]
#[kani::unwind(50)]
fn c02_twin_encrypt_3blocks() { twin_encrypt_range(10, 33) }
