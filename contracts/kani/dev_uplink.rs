// Helpers + contracts for lorawan-device/src/mac/uplink/mod.rs (C08, C12, and arbitrary pre-states for Session harnesses)
// @inject file=lorawan-device/src/mac/uplink/mod.rs mod=verif_uplink
// @job pkg=lorawan-device zflags=function-contracts,stubbing
// @requires common_tape
use super::*;
use crate::verif_tape as tape;

/// Any `Uplink` value at all (any <= 15 pending bytes, any flag): what a deserialiser or any
/// history could have produced.  `wf_uplink` of DESIGN 3.2 is exactly the type invariant of heapless::Vec.
pub(crate) fn any_uplink() -> Uplink { any_uplink_upto(FOPTS_MAX_LEN) }
/// as `any_uplink`, at most `maxlen` pending bytes
pub(crate) fn any_uplink_upto(maxlen: usize) -> Uplink {
    let mut u = Uplink::default();
    let n: usize = tape::below(maxlen + 1);
    let mut i = 0;
    while i < maxlen {
        let b = tape::u8();
        if i < n { let _ = u.pending.push(b); }
        i += 1;
    }
    u.confirmed = tape::boolean();
    u
}

/// any `Uplink` with exactly `n` (concrete) pending bytes of symbolic content: concrete lengths keep every
/// slice operation downstream at fixed offsets (symbolic lengths cost CBMC millions of array constraints)
pub(crate) fn any_uplink_len(n: usize) -> Uplink {
    let mut u = Uplink::default();
    let mut i = 0;
    while i < n { let _ = u.pending.push(tape::u8()); i += 1; }
    u.confirmed = tape::boolean();
    u
}

pub(crate) fn uplink_pending(u: &Uplink) -> &[u8] { &u.pending }
pub(crate) fn uplink_confirmed(u: &Uplink) -> bool { u.confirmed }
pub(crate) fn uplink_eq(a: &Uplink, b: &Uplink) -> bool {
    if a.confirmed != b.confirmed || a.pending.len() != b.pending.len() { return false; }
    let mut i = 0;
    while i < FOPTS_MAX_LEN {
        if i < a.pending.len() && a.pending[i] != b.pending[i] { return false; }
        i += 1;
    }
    true
}

// ------------------------------------------------------------------------------------------------
// C08: Uplink::clear_mac_commands / add_mac_command contracts
// ------------------------------------------------------------------------------------------------
/// LoRaWAN 1.0.x uplink MAC command payload lengths (CID -> bytes), None for CIDs not defined for uplinks
pub(crate) fn spec_uplink_cmd_len(cid: u8) -> Option<usize> {
    match cid {
        0x02 => Some(0), 0x03 => Some(1), 0x04 => Some(0), 0x05 => Some(1), 0x06 => Some(2), 0x07 => Some(1),
        0x08 => Some(0), 0x09 => Some(0), 0x0A => Some(1), 0x0D => Some(0),
        _ => None,
    }
}
/// the answers that must be repeated until the next Class A downlink: RXParamSetupAns, RXTimingSetupAns, DlChannelAns
pub(crate) fn spec_sticky(cid: u8) -> bool { cid == 0x05 || cid == 0x08 || cid == 0x0A }
/// whole commands of `p` that are sticky, in order (parsing stops at the first malformed command)
pub(crate) fn spec_sticky_filter(p: &[u8]) -> ([u8; 15], usize) {
    let mut out = [0u8; 15];
    let mut n = 0;
    let mut i = 0;
    let mut guard = 0;
    while guard < 15 {
        if i < p.len() {
            match spec_uplink_cmd_len(p[i]) {
                Some(l) if i + 1 + l <= p.len() => {
                    if spec_sticky(p[i]) {
                        let mut k = 0;
                        while k < 3 { if k <= l { out[n] = p[i + k]; n += 1; } k += 1; }
                    }
                    i += 1 + l;
                }
                _ => { i = p.len(); }
            }
        }
        guard += 1;
    }
    (out, n)
}

/// the ten uplink commands of LoRaWAN 1.0.x (CID, payload length)
pub(crate) const UP_CMDS: [(u8, usize); 10] = [(0x02, 0), (0x03, 1), (0x04, 0), (0x05, 1), (0x06, 2), (0x07, 1), (0x08, 0), (0x09, 0), (0x0A, 1), (0x0D, 0)];

/// append one whole command of kind `k` with the given (symbolic) payload bytes to the raw queue
pub(crate) fn push_raw_cmd(u: &mut Uplink, k: usize, payload: &[u8; 2]) {
    let (cid, l) = UP_CMDS[k];
    let _ = u.pending.push(cid);
    if l >= 1 { let _ = u.pending.push(payload[0]); }
    if l >= 2 { let _ = u.pending.push(payload[1]); }
}

/// MAC-command streams are driven by SHAPE (DESIGN 1): a harness fixes the sequence of command kinds
/// (so every loop of the iterator chain has a concrete trip count) and leaves every payload byte symbolic.
/// Fully symbolic queues are out of CBMC's reach: 3 arbitrary bytes already need > 3 min in the
/// filter_map/filter/map/collect chain of clear_mac_commands (measured).
fn clear_shape(kinds: &[usize], payloads: &[[u8; 2]; 3], confirmed: bool) {
    let mut u = Uplink::default();
    u.confirmed = confirmed;
    let mut i = 0;
    while i < kinds.len() { push_raw_cmd(&mut u, kinds[i], &payloads[i]); i += 1; }
    let old = u.clone();
    u.clear_mac_commands(true);
    let (exp, n) = spec_sticky_filter(&old.pending);
    assert!(u.confirmed == old.confirmed, "clear_mac_commands leaves the ACK flag alone");
    assert!(u.pending.len() == n, "C08 exactly the sticky answers stay queued");
    let mut k = 0;
    while k < 15 { if k < n { assert!(u.pending[k] == exp[k], "C08 sticky answers kept byte for byte, in order"); } k += 1; }
    let mut v = old.clone();
    v.clear_mac_commands(false);
    assert!(v.pending.is_empty() && v.confirmed == old.confirmed, "C08 clear_mac_commands(false) empties the queue");
}

/// recording stub: callers with a fully symbolic queue only need to show THAT the queue is cleaned with the
/// right argument; what the cleaning does is Uplink::clear_mac_commands' own contract (c08_clear_* harnesses).
pub(crate) static mut CLEAR_CALLS: u8 = 0;
pub(crate) static mut CLEAR_RETAIN: bool = false;
pub(crate) fn stub_clear_record(_u: &mut Uplink, retain_acks: bool) {
    unsafe { CLEAR_CALLS = CLEAR_CALLS.wrapping_add(1); CLEAR_RETAIN = retain_acks; }
}

/// contract-stub of Uplink::clear_mac_commands (its contract is discharged per shape by the c08_clear_* harnesses):
/// used by harnesses of callers whose queue content is fully symbolic.
pub(crate) fn stub_clear_mac_commands(u: &mut Uplink, retain_acks: bool) {
    if retain_acks {
        let (exp, n) = spec_sticky_filter(&u.pending);
        u.pending.clear();
        let mut k = 0;
        while k < 15 { if k < n { let _ = u.pending.push(exp[k]); } k += 1; }
    } else {
        u.pending.clear();
    }
}

// @verif props=C08,C04,C12 obligation=Uplink::clear_mac_commands.contract[<=1cmd] label=bounded(1-command) tier=quick bound="queues of 0 or 1 whole uplink command (all 11 kind sequences), payload bytes symbolic"
#[kani::proof]
#[kani::unwind(17)]
fn c08_clear_mac_commands_singles() {
    tape::init();
    let payloads: [[u8; 2]; 3] = [[tape::u8(), tape::u8()], [tape::u8(), tape::u8()], [tape::u8(), tape::u8()]];
    let confirmed = tape::boolean();
    clear_shape(&[], &payloads, confirmed);
    let mut a = 0;
    while a < 10 { clear_shape(&[a], &payloads, confirmed); a += 1; }
    kani::cover!(true, "verif-reached: all shapes done");
}

// @verif props=C08,C04 obligation=Uplink::clear_mac_commands.contract[2cmds,first=0] label=bounded(2-commands) tier=quick bound="queues of 2 whole uplink commands whose first kind is #0 (10 kind sequences), payload bytes symbolic"
#[kani::proof]
#[kani::unwind(17)]
fn c08_clear_mac_commands_pairs_0() {
    tape::init();
    let payloads: [[u8; 2]; 3] = [[tape::u8(), tape::u8()], [tape::u8(), tape::u8()], [tape::u8(), tape::u8()]];
    let confirmed = tape::boolean();
    let mut b = 0;
    while b < 10 { clear_shape(&[0, b], &payloads, confirmed); b += 1; }
    kani::cover!(true, "verif-reached: all shapes done");
}

// @verif props=C08,C04 obligation=Uplink::clear_mac_commands.contract[2cmds,first=1] label=bounded(2-commands) tier=quick bound="queues of 2 whole uplink commands whose first kind is #1 (10 kind sequences), payload bytes symbolic"
#[kani::proof]
#[kani::unwind(17)]
fn c08_clear_mac_commands_pairs_1() {
    tape::init();
    let payloads: [[u8; 2]; 3] = [[tape::u8(), tape::u8()], [tape::u8(), tape::u8()], [tape::u8(), tape::u8()]];
    let confirmed = tape::boolean();
    let mut b = 0;
    while b < 10 { clear_shape(&[1, b], &payloads, confirmed); b += 1; }
    kani::cover!(true, "verif-reached: all shapes done");
}

// @verif props=C08,C04 obligation=Uplink::clear_mac_commands.contract[2cmds,first=2] label=bounded(2-commands) tier=quick bound="queues of 2 whole uplink commands whose first kind is #2 (10 kind sequences), payload bytes symbolic"
#[kani::proof]
#[kani::unwind(17)]
fn c08_clear_mac_commands_pairs_2() {
    tape::init();
    let payloads: [[u8; 2]; 3] = [[tape::u8(), tape::u8()], [tape::u8(), tape::u8()], [tape::u8(), tape::u8()]];
    let confirmed = tape::boolean();
    let mut b = 0;
    while b < 10 { clear_shape(&[2, b], &payloads, confirmed); b += 1; }
    kani::cover!(true, "verif-reached: all shapes done");
}

// @verif props=C08,C04 obligation=Uplink::clear_mac_commands.contract[2cmds,first=3] label=bounded(2-commands) tier=quick bound="queues of 2 whole uplink commands whose first kind is #3 (10 kind sequences), payload bytes symbolic"
#[kani::proof]
#[kani::unwind(17)]
fn c08_clear_mac_commands_pairs_3() {
    tape::init();
    let payloads: [[u8; 2]; 3] = [[tape::u8(), tape::u8()], [tape::u8(), tape::u8()], [tape::u8(), tape::u8()]];
    let confirmed = tape::boolean();
    let mut b = 0;
    while b < 10 { clear_shape(&[3, b], &payloads, confirmed); b += 1; }
    kani::cover!(true, "verif-reached: all shapes done");
}

// @verif props=C08,C04 obligation=Uplink::clear_mac_commands.contract[2cmds,first=4] label=bounded(2-commands) tier=quick bound="queues of 2 whole uplink commands whose first kind is #4 (10 kind sequences), payload bytes symbolic"
#[kani::proof]
#[kani::unwind(17)]
fn c08_clear_mac_commands_pairs_4() {
    tape::init();
    let payloads: [[u8; 2]; 3] = [[tape::u8(), tape::u8()], [tape::u8(), tape::u8()], [tape::u8(), tape::u8()]];
    let confirmed = tape::boolean();
    let mut b = 0;
    while b < 10 { clear_shape(&[4, b], &payloads, confirmed); b += 1; }
    kani::cover!(true, "verif-reached: all shapes done");
}

// @verif props=C08,C04 obligation=Uplink::clear_mac_commands.contract[2cmds,first=5] label=bounded(2-commands) tier=quick bound="queues of 2 whole uplink commands whose first kind is #5 (10 kind sequences), payload bytes symbolic"
#[kani::proof]
#[kani::unwind(17)]
fn c08_clear_mac_commands_pairs_5() {
    tape::init();
    let payloads: [[u8; 2]; 3] = [[tape::u8(), tape::u8()], [tape::u8(), tape::u8()], [tape::u8(), tape::u8()]];
    let confirmed = tape::boolean();
    let mut b = 0;
    while b < 10 { clear_shape(&[5, b], &payloads, confirmed); b += 1; }
    kani::cover!(true, "verif-reached: all shapes done");
}

// @verif props=C08,C04 obligation=Uplink::clear_mac_commands.contract[2cmds,first=6] label=bounded(2-commands) tier=quick bound="queues of 2 whole uplink commands whose first kind is #6 (10 kind sequences), payload bytes symbolic"
#[kani::proof]
#[kani::unwind(17)]
fn c08_clear_mac_commands_pairs_6() {
    tape::init();
    let payloads: [[u8; 2]; 3] = [[tape::u8(), tape::u8()], [tape::u8(), tape::u8()], [tape::u8(), tape::u8()]];
    let confirmed = tape::boolean();
    let mut b = 0;
    while b < 10 { clear_shape(&[6, b], &payloads, confirmed); b += 1; }
    kani::cover!(true, "verif-reached: all shapes done");
}

// @verif props=C08,C04 obligation=Uplink::clear_mac_commands.contract[2cmds,first=7] label=bounded(2-commands) tier=quick bound="queues of 2 whole uplink commands whose first kind is #7 (10 kind sequences), payload bytes symbolic"
#[kani::proof]
#[kani::unwind(17)]
fn c08_clear_mac_commands_pairs_7() {
    tape::init();
    let payloads: [[u8; 2]; 3] = [[tape::u8(), tape::u8()], [tape::u8(), tape::u8()], [tape::u8(), tape::u8()]];
    let confirmed = tape::boolean();
    let mut b = 0;
    while b < 10 { clear_shape(&[7, b], &payloads, confirmed); b += 1; }
    kani::cover!(true, "verif-reached: all shapes done");
}

// @verif props=C08,C04 obligation=Uplink::clear_mac_commands.contract[2cmds,first=8] label=bounded(2-commands) tier=quick bound="queues of 2 whole uplink commands whose first kind is #8 (10 kind sequences), payload bytes symbolic"
#[kani::proof]
#[kani::unwind(17)]
fn c08_clear_mac_commands_pairs_8() {
    tape::init();
    let payloads: [[u8; 2]; 3] = [[tape::u8(), tape::u8()], [tape::u8(), tape::u8()], [tape::u8(), tape::u8()]];
    let confirmed = tape::boolean();
    let mut b = 0;
    while b < 10 { clear_shape(&[8, b], &payloads, confirmed); b += 1; }
    kani::cover!(true, "verif-reached: all shapes done");
}

// @verif props=C08,C04 obligation=Uplink::clear_mac_commands.contract[2cmds,first=9] label=bounded(2-commands) tier=quick bound="queues of 2 whole uplink commands whose first kind is #9 (10 kind sequences), payload bytes symbolic"
#[kani::proof]
#[kani::unwind(17)]
fn c08_clear_mac_commands_pairs_9() {
    tape::init();
    let payloads: [[u8; 2]; 3] = [[tape::u8(), tape::u8()], [tape::u8(), tape::u8()], [tape::u8(), tape::u8()]];
    let confirmed = tape::boolean();
    let mut b = 0;
    while b < 10 { clear_shape(&[9, b], &payloads, confirmed); b += 1; }
    kani::cover!(true, "verif-reached: all shapes done");
}

// @verif props=C08,C04 obligation=Uplink::clear_mac_commands.contract[3cmds,first=0] label=bounded(3-commands) tier=never bound="queues of 3 whole uplink commands whose first kind is #0 (100 kind sequences), payload bytes symbolic"
#[kani::proof]
#[kani::unwind(17)]
fn c08_clear_mac_commands_triples_0() {
    tape::init();
    let payloads: [[u8; 2]; 3] = [[tape::u8(), tape::u8()], [tape::u8(), tape::u8()], [tape::u8(), tape::u8()]];
    let confirmed = tape::boolean();
    let mut b = 0;
    while b < 10 {
        let mut c = 0;
        while c < 10 { clear_shape(&[0, b, c], &payloads, confirmed); c += 1; }
        b += 1;
    }
    kani::cover!(true, "verif-reached: all shapes done");
}

// @verif props=C08,C04 obligation=Uplink::clear_mac_commands.contract[3cmds,first=1] label=bounded(3-commands) tier=never bound="queues of 3 whole uplink commands whose first kind is #1 (100 kind sequences), payload bytes symbolic"
#[kani::proof]
#[kani::unwind(17)]
fn c08_clear_mac_commands_triples_1() {
    tape::init();
    let payloads: [[u8; 2]; 3] = [[tape::u8(), tape::u8()], [tape::u8(), tape::u8()], [tape::u8(), tape::u8()]];
    let confirmed = tape::boolean();
    let mut b = 0;
    while b < 10 {
        let mut c = 0;
        while c < 10 { clear_shape(&[1, b, c], &payloads, confirmed); c += 1; }
        b += 1;
    }
    kani::cover!(true, "verif-reached: all shapes done");
}

// @verif props=C08,C04 obligation=Uplink::clear_mac_commands.contract[3cmds,first=2] label=bounded(3-commands) tier=never bound="queues of 3 whole uplink commands whose first kind is #2 (100 kind sequences), payload bytes symbolic"
#[kani::proof]
#[kani::unwind(17)]
fn c08_clear_mac_commands_triples_2() {
    tape::init();
    let payloads: [[u8; 2]; 3] = [[tape::u8(), tape::u8()], [tape::u8(), tape::u8()], [tape::u8(), tape::u8()]];
    let confirmed = tape::boolean();
    let mut b = 0;
    while b < 10 {
        let mut c = 0;
        while c < 10 { clear_shape(&[2, b, c], &payloads, confirmed); c += 1; }
        b += 1;
    }
    kani::cover!(true, "verif-reached: all shapes done");
}

// @verif props=C08,C04 obligation=Uplink::clear_mac_commands.contract[3cmds,first=3] label=bounded(3-commands) tier=never bound="queues of 3 whole uplink commands whose first kind is #3 (100 kind sequences), payload bytes symbolic"
#[kani::proof]
#[kani::unwind(17)]
fn c08_clear_mac_commands_triples_3() {
    tape::init();
    let payloads: [[u8; 2]; 3] = [[tape::u8(), tape::u8()], [tape::u8(), tape::u8()], [tape::u8(), tape::u8()]];
    let confirmed = tape::boolean();
    let mut b = 0;
    while b < 10 {
        let mut c = 0;
        while c < 10 { clear_shape(&[3, b, c], &payloads, confirmed); c += 1; }
        b += 1;
    }
    kani::cover!(true, "verif-reached: all shapes done");
}

// @verif props=C08,C04 obligation=Uplink::clear_mac_commands.contract[3cmds,first=4] label=bounded(3-commands) tier=never bound="queues of 3 whole uplink commands whose first kind is #4 (100 kind sequences), payload bytes symbolic"
#[kani::proof]
#[kani::unwind(17)]
fn c08_clear_mac_commands_triples_4() {
    tape::init();
    let payloads: [[u8; 2]; 3] = [[tape::u8(), tape::u8()], [tape::u8(), tape::u8()], [tape::u8(), tape::u8()]];
    let confirmed = tape::boolean();
    let mut b = 0;
    while b < 10 {
        let mut c = 0;
        while c < 10 { clear_shape(&[4, b, c], &payloads, confirmed); c += 1; }
        b += 1;
    }
    kani::cover!(true, "verif-reached: all shapes done");
}

// @verif props=C08,C04 obligation=Uplink::clear_mac_commands.contract[3cmds,first=5] label=bounded(3-commands) tier=never bound="queues of 3 whole uplink commands whose first kind is #5 (100 kind sequences), payload bytes symbolic"
#[kani::proof]
#[kani::unwind(17)]
fn c08_clear_mac_commands_triples_5() {
    tape::init();
    let payloads: [[u8; 2]; 3] = [[tape::u8(), tape::u8()], [tape::u8(), tape::u8()], [tape::u8(), tape::u8()]];
    let confirmed = tape::boolean();
    let mut b = 0;
    while b < 10 {
        let mut c = 0;
        while c < 10 { clear_shape(&[5, b, c], &payloads, confirmed); c += 1; }
        b += 1;
    }
    kani::cover!(true, "verif-reached: all shapes done");
}

// @verif props=C08,C04 obligation=Uplink::clear_mac_commands.contract[3cmds,first=6] label=bounded(3-commands) tier=never bound="queues of 3 whole uplink commands whose first kind is #6 (100 kind sequences), payload bytes symbolic"
#[kani::proof]
#[kani::unwind(17)]
fn c08_clear_mac_commands_triples_6() {
    tape::init();
    let payloads: [[u8; 2]; 3] = [[tape::u8(), tape::u8()], [tape::u8(), tape::u8()], [tape::u8(), tape::u8()]];
    let confirmed = tape::boolean();
    let mut b = 0;
    while b < 10 {
        let mut c = 0;
        while c < 10 { clear_shape(&[6, b, c], &payloads, confirmed); c += 1; }
        b += 1;
    }
    kani::cover!(true, "verif-reached: all shapes done");
}

// @verif props=C08,C04 obligation=Uplink::clear_mac_commands.contract[3cmds,first=7] label=bounded(3-commands) tier=never bound="queues of 3 whole uplink commands whose first kind is #7 (100 kind sequences), payload bytes symbolic"
#[kani::proof]
#[kani::unwind(17)]
fn c08_clear_mac_commands_triples_7() {
    tape::init();
    let payloads: [[u8; 2]; 3] = [[tape::u8(), tape::u8()], [tape::u8(), tape::u8()], [tape::u8(), tape::u8()]];
    let confirmed = tape::boolean();
    let mut b = 0;
    while b < 10 {
        let mut c = 0;
        while c < 10 { clear_shape(&[7, b, c], &payloads, confirmed); c += 1; }
        b += 1;
    }
    kani::cover!(true, "verif-reached: all shapes done");
}

// @verif props=C08,C04 obligation=Uplink::clear_mac_commands.contract[3cmds,first=8] label=bounded(3-commands) tier=never bound="queues of 3 whole uplink commands whose first kind is #8 (100 kind sequences), payload bytes symbolic"
#[kani::proof]
#[kani::unwind(17)]
fn c08_clear_mac_commands_triples_8() {
    tape::init();
    let payloads: [[u8; 2]; 3] = [[tape::u8(), tape::u8()], [tape::u8(), tape::u8()], [tape::u8(), tape::u8()]];
    let confirmed = tape::boolean();
    let mut b = 0;
    while b < 10 {
        let mut c = 0;
        while c < 10 { clear_shape(&[8, b, c], &payloads, confirmed); c += 1; }
        b += 1;
    }
    kani::cover!(true, "verif-reached: all shapes done");
}

// @verif props=C08,C04 obligation=Uplink::clear_mac_commands.contract[3cmds,first=9] label=bounded(3-commands) tier=never bound="queues of 3 whole uplink commands whose first kind is #9 (100 kind sequences), payload bytes symbolic"
#[kani::proof]
#[kani::unwind(17)]
fn c08_clear_mac_commands_triples_9() {
    tape::init();
    let payloads: [[u8; 2]; 3] = [[tape::u8(), tape::u8()], [tape::u8(), tape::u8()], [tape::u8(), tape::u8()]];
    let confirmed = tape::boolean();
    let mut b = 0;
    while b < 10 {
        let mut c = 0;
        while c < 10 { clear_shape(&[9, b, c], &payloads, confirmed); c += 1; }
        b += 1;
    }
    kani::cover!(true, "verif-reached: all shapes done");
}

// ------------------------------------------------------------------------------------------------
// Uplink::add_mac_command: from ANY queue (0..=15 arbitrary bytes) an answer is appended whole iff CID + payload
// still fit into the 15 FOpts bytes, otherwise the queue is left alone; never a panic (C04: the network decides
// how many requests a downlink carries, so the queue can be at any fill level when the next answer is added).
fn add_contract<M: SerializableMacCommand>(cmd: M) {
    let mut u = any_uplink();
    let old = u.clone();
    let cid = cmd.cid();
    let l = cmd.payload_len();
    let mut pay = [0u8; 4];
    let mut i = 0;
    while i < 4 { if i < l { pay[i] = cmd.payload_bytes()[i]; } i += 1; }
    u.add_mac_command(cmd);
    let n = old.pending.len();
    if n + 1 + l <= FOPTS_MAX_LEN {
        assert!(u.pending.len() == n + 1 + l && u.pending[n] == cid, "C08 answer appended: CID after the old queue");
        let mut k = 0;
        while k < FOPTS_MAX_LEN {
            if k < n { assert!(u.pending[k] == old.pending[k], "C08 older answers untouched"); }
            if k < l { assert!(u.pending[n + 1 + k] == pay[k], "C08 answer payload appended whole"); }
            k += 1;
        }
    } else {
        assert!(uplink_eq(&u, &old), "C08 an answer that does not fit whole leaves the queue unchanged (no partial command)");
    }
    assert!(u.confirmed == old.confirmed, "add_mac_command frame: ACK flag untouched");
    kani::cover!(n + 1 + l == FOPTS_MAX_LEN, "verif-reached: exactly fills the queue");
    kani::cover!(n + 1 + l == FOPTS_MAX_LEN + 1, "verif-reached: one byte too long");
    kani::cover!(n == 0, "verif-reached: empty queue");
}
// @verif props=C04,C08 obligation=Uplink::add_mac_command.contract[payload 0] label=proved-complete tier=quick bound="every queue content and fill level 0..=15"
#[kani::proof]
#[kani::unwind(18)]
fn c04_add_mac_command_len0() { tape::init(); add_contract(lorawan::maccommands::RXTimingSetupAnsCreator::new()) }
// @verif props=C04,C08 obligation=Uplink::add_mac_command.contract[payload 1] label=proved-complete tier=quick bound="every queue content and fill level 0..=15, every answer byte"
#[kani::proof]
#[kani::unwind(18)]
fn c04_add_mac_command_len1() {
    tape::init();
    let mut c = lorawan::maccommands::LinkADRAnsCreator::new();
    c.set_channel_mask_ack(tape::boolean()).set_data_rate_ack(tape::boolean()).set_tx_power_ack(tape::boolean());
    add_contract(c)
}
// @verif props=C04,C08 obligation=Uplink::add_mac_command.contract[payload 2] label=proved-complete tier=quick bound="every queue content and fill level 0..=15, every answer byte"
#[kani::proof]
#[kani::unwind(18)]
fn c04_add_mac_command_len2() {
    tape::init();
    let mut c = lorawan::maccommands::DevStatusAnsCreator::new();
    c.set_battery(tape::u8());
    let _ = c.set_margin((tape::u8() % 64) as i8 - 32);
    add_contract(c)
}
