// Helpers + contracts for lorawan-device/src/mac/uplink/mod.rs (C08, C12, and arbitrary pre-states for Session harnesses)
// @inject file=lorawan-device/src/mac/uplink/mod.rs mod=verif_uplink
// @job pkg=lorawan-device zflags=function-contracts,stubbing
// @requires common_tape
use super::*;
use crate::verif_tape as tape;

/// Any `Uplink` value at all (any <= 15 pending bytes, any flag): what a deserialiser or any
/// history could have produced.  `wf_uplink` of DESIGN 3.2 is exactly the type invariant of heapless::Vec.
pub(crate) fn any_uplink() -> Uplink {
    let mut u = Uplink::default();
    let n: usize = tape::below(FOPTS_MAX_LEN + 1);
    let bytes: [u8; FOPTS_MAX_LEN] = tape::arr();
    let mut i = 0;
    while i < FOPTS_MAX_LEN {
        if i < n { let _ = u.pending.push(bytes[i]); }
        i += 1;
    }
    u.confirmed = tape::boolean();
    u
}

pub(crate) fn uplink_pending(u: &Uplink) -> &[u8] { &u.pending }
pub(crate) fn uplink_confirmed(u: &Uplink) -> bool { u.confirmed }
pub(crate) fn uplink_eq(a: &Uplink, b: &Uplink) -> bool {
    if a.confirmed != b.confirmed || a.pending.len() != b.pending.len() { return false; }
    let mut i = 0;
    while i < FOPTS_MAX_LEN {
        if i < a.pending.len() && a.pending[i] != b.pending[i] { return false; }
        i += 1;
    }
    true
}
