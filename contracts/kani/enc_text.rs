// Contracts + harnesses for the *text forms* of identifiers, addresses and keys (C19, second half):
//   parser.rs   wire_value_newtype!  Display ("{:0width$x}" of the logical value) / FromStr (from_str_radix)
//   string.rs   fixed_len_struct_impl_to_string_msb! (keys: hex::encode_to_slice / hex::decode_to_slice)
//               fixed_len_struct_impl_string_lsb!    (keys::DevEui / AppEui: reversed)
// The real `core::fmt` and `hex` code is compiled and executed symbolically; the sink is a fixed buffer implementing
// `core::fmt::Write` (the only user-supplied part, A-sink).  Contract, taken from the property statement:
//   print(v) is exactly 2*N hex digits, MSB first (spec written here with shifts, independent of fmt/hex);
//   parse(print(v)) == Ok(v) for EVERY v; parse accepts upper-case digits with the same value;
//   a text of another length, or with a character that is not a hex digit, is refused (never a panic).
// @inject file=lorawan-encoding/src/string.rs mod=verif_text
// @job pkg=lorawan zflags=function-contracts,stubbing
// @requires common_tape
#![allow(dead_code)]
use crate::verif_tape as tape;
use core::fmt::Write;
use core::str::FromStr;

pub(crate) struct Sink { pub b: [u8; 40], pub n: usize, pub overflow: bool }
impl Sink { pub(crate) fn new() -> Self { Sink { b: [0; 40], n: 0, overflow: false } } }
impl Write for Sink {
    fn write_str(&mut self, s: &str) -> core::fmt::Result {
        let bytes = s.as_bytes();
        let mut i = 0;
        while i < bytes.len() {
            if self.n >= 40 { self.overflow = true; return Err(core::fmt::Error); }
            self.b[self.n] = bytes[i]; self.n += 1; i += 1;
        }
        Ok(())
    }
}
const DIGITS: &[u8; 16] = b"0123456789abcdef";
/// spec: the k-th character (0 = leftmost) of the MSB-first hex form of a value stored MSB-first in `msb`
fn spec_digit(msb: &[u8], k: usize) -> u8 { let b = msb[k / 2]; DIGITS[(if k % 2 == 0 { b >> 4 } else { b & 0x0f }) as usize] }
fn hexval(c: u8) -> Option<u8> { match c { b'0'..=b'9' => Some(c - b'0'), b'a'..=b'f' => Some(c - b'a' + 10), b'A'..=b'F' => Some(c - b'A' + 10), _ => None } }

// ------------------------------------------------------------------------------------------------ parser.rs newtypes
macro_rules! newtype_text {
    ($t:ty, $n:literal) => {{
        tape::init();
        let wire: [u8; $n] = tape::arr();
        let upper: [u8; 16] = tape::arr();
        let v = <$t>::from_wire_bytes(wire);
        let mut msb = wire; msb.reverse();
        let mut w = Sink::new();
        let r = write!(w, "{}", v);
        assert!(r.is_ok() && !w.overflow && w.n == 2 * $n, "C19 the text form is exactly 2N characters");
        let mut k = 0;
        while k < 2 * $n { assert!(w.b[k] == spec_digit(&msb, k), "C19 text form = MSB-first lower-case hex of the wire value"); k += 1; }
        // parse what was printed, with any mixture of upper/lower case
        let mut txt = [0u8; 2 * $n];
        let mut k = 0;
        while k < 2 * $n { let c = w.b[k]; txt[k] = if upper[k] & 1 == 1 && c >= b'a' { c - 32 } else { c }; k += 1; }
        let s = unsafe { core::str::from_utf8_unchecked(&txt) }; // txt holds ASCII hex digits only (asserted above)
        let back = <$t>::from_str(s);
        assert!(back == Ok(v), "C19 parse(print(v)) == v, for every value, in either letter case");
        kani::cover!(back.is_ok(), "verif-reached: round trip");
    }};
}
// @verif props=C19 obligation=parser::DevAddr.text_roundtrip label=proved-complete tier=quick bound="every 32-bit value; text of exactly 8 characters, any letter case"
#[kani::proof]
#[kani::unwind(36)]
fn c19_text_devaddr() { newtype_text!(crate::parser::DevAddr, 4) }
// @verif props=C19 obligation=parser::DevNonce.text_roundtrip label=proved-complete tier=quick bound="every 16-bit value"
#[kani::proof]
#[kani::unwind(36)]
fn c19_text_devnonce() { newtype_text!(crate::parser::DevNonce, 2) }
// @verif props=C19 obligation=parser::DevEui.text_roundtrip label=proved-complete tier=quick bound="every 64-bit value"
#[kani::proof]
#[kani::unwind(36)]
fn c19_text_deveui() { newtype_text!(crate::parser::DevEui, 8) }
// @verif props=C19 obligation=parser::JoinEui.text_roundtrip label=proved-complete tier=quick bound="every 64-bit value"
#[kani::proof]
#[kani::unwind(36)]
fn c19_text_joineui() { newtype_text!(crate::parser::JoinEui, 8) }

/// parse contract on an arbitrary ASCII text of exactly 2N characters: all hex digits => Ok(value with those digits, MSB first);
/// the call returns (never panics) for every text.  (`from_str_radix` also takes a leading '+': not a round-trip matter.)
macro_rules! newtype_parse_total {
    ($t:ty, $n:literal) => {{
        tape::init();
        let txt: [u8; 2 * $n] = tape::arr();
        let mut k = 0; let mut all_hex = true; let mut ascii = true;
        let mut msb = [0u8; $n];
        while k < 2 * $n {
            if txt[k] >= 0x80 { ascii = false; }
            match hexval(txt[k]) { Some(d) => { msb[k / 2] = if k % 2 == 0 { d << 4 } else { msb[k / 2] | d }; } None => { all_hex = false; } }
            k += 1;
        }
        kani::assume(ascii);
        let s = unsafe { core::str::from_utf8_unchecked(&txt) };
        let r = <$t>::from_str(s);
        let mut wire = msb; wire.reverse();
        if all_hex { assert!(r == Ok(<$t>::from_wire_bytes(wire)), "C19 a text of 2N hex digits parses to the value with those digits, MSB first"); }
        kani::cover!(all_hex && r.is_ok(), "verif-reached: accepted");
        kani::cover!(!all_hex && r.is_err(), "verif-reached: refused");
    }};
}
// @verif props=C19,C03 obligation=parser::DevAddr.from_str.contract label=proved-complete tier=quick bound="every ASCII text of exactly 8 characters (other lengths: see .length)"
#[kani::proof]
#[kani::unwind(36)]
fn c19_text_devaddr_parse() { newtype_parse_total!(crate::parser::DevAddr, 4) }
// @verif props=C19,C03 obligation=parser::DevEui.from_str.contract label=proved-complete tier=quick bound="every ASCII text of exactly 16 characters"
#[kani::proof]
#[kani::unwind(36)]
fn c19_text_deveui_parse() { newtype_parse_total!(crate::parser::DevEui, 8) }
// @verif props=C19,C03 obligation=wire_value_newtype.from_str.length label=proved-complete tier=quick bound="ASCII texts of 0..=17 characters"
#[kani::proof]
#[kani::unwind(36)]
fn c19_text_newtype_wrong_length() {
    tape::init();
    let txt: [u8; 17] = tape::arr();
    let n = tape::below(18);
    let mut k = 0; while k < 17 { kani::assume(txt[k] < 0x80); k += 1; }
    let s = unsafe { core::str::from_utf8_unchecked(&txt[..n]) };
    if n != 8 { assert!(crate::parser::DevAddr::from_str(s).is_err(), "C19 DevAddr text of another length is refused"); }
    if n != 16 { assert!(crate::parser::DevEui::from_str(s).is_err() && crate::parser::JoinEui::from_str(s).is_err(), "C19 EUI text of another length is refused"); }
    if n != 4 { assert!(crate::parser::DevNonce::from_str(s).is_err(), "C19 DevNonce text of another length is refused"); }
    kani::cover!(n == 3, "verif-reached: odd length");
}

// ------------------------------------------------------------------------------------------------ string.rs: keys and EUIs (hex crate)
macro_rules! key_text {
    ($t:ty, $n:literal, $lsb_stored:expr) => {{
        tape::init();
        let raw: [u8; $n] = tape::arr();
        let upper: [u8; 32] = tape::arr();
        let v = <$t>::from(raw);
        let mut msb = raw; if $lsb_stored { msb.reverse(); }
        let mut w = Sink::new();
        let r = write!(w, "{}", v);
        assert!(r.is_ok() && !w.overflow && w.n == 2 * $n, "C19 the text form is exactly 2N characters");
        let mut k = 0;
        while k < 2 * $n { assert!(w.b[k] == spec_digit(&msb, k), "C19 text form = MSB-first lower-case hex"); k += 1; }
        let mut txt = [0u8; 2 * $n];
        let mut k = 0;
        while k < 2 * $n { let c = w.b[k]; txt[k] = if upper[k] & 1 == 1 && c >= b'a' { c - 32 } else { c }; k += 1; }
        let s = unsafe { core::str::from_utf8_unchecked(&txt) };
        let back = <$t>::from_str(s);
        assert!(back == Ok(v), "C19 parse(print(v)) == v, for every value, in either letter case");
        kani::cover!(back.is_ok(), "verif-reached: round trip");
    }};
}
macro_rules! key_parse_total {
    ($t:ty, $n:literal, $lsb_stored:expr) => {{
        tape::init();
        let txt: [u8; 2 * $n + 1] = tape::arr();
        let len = 2 * $n - 1 + tape::below(3);
        let mut k = 0; let mut all_hex = true;
        let mut msb = [0u8; $n];
        while k < 2 * $n + 1 {
            kani::assume(txt[k] < 0x80);
            if k < len {
                match hexval(txt[k]) { Some(d) => { if k < 2 * $n { msb[k / 2] = if k % 2 == 0 { d << 4 } else { msb[k / 2] | d }; } } None => { all_hex = false; } }
            }
            k += 1;
        }
        let s = unsafe { core::str::from_utf8_unchecked(&txt[..len]) };
        let r = <$t>::from_str(s);
        let mut stored = msb; if $lsb_stored { stored.reverse(); }
        assert!(r.is_ok() == (all_hex && len == 2 * $n), "C19 accepted exactly when the text is 2N hex digits");
        if let Ok(v) = r { assert!(v == <$t>::from(stored), "C19 value = the digits, MSB first"); }
        kani::cover!(r.is_ok(), "verif-reached: accepted");
        kani::cover!(len == 2 * $n && r.is_err(), "verif-reached: refused for a non-hex character");
        kani::cover!(len != 2 * $n, "verif-reached: refused for its length");
    }};
}
// @verif props=C19 obligation=keys::AppKey.text_roundtrip label=proved-complete tier=quick bound="every 128-bit value (macro fixed_len_struct_impl_to_string_msb!, instantiated for AppKey)"
#[kani::proof]
#[kani::unwind(36)]
fn c19_text_appkey() { key_text!(crate::keys::AppKey, 16, false) }
// @verif props=C19 obligation=keys::DevEui.text_roundtrip label=proved-complete tier=quick bound="every 64-bit value (macro fixed_len_struct_impl_string_lsb!, instantiated for keys::DevEui)"
#[kani::proof]
#[kani::unwind(36)]
fn c19_text_keys_deveui() { key_text!(crate::keys::DevEui, 8, true) }
// @verif props=C19 obligation=keys::AppEui.text_roundtrip label=proved-complete tier=quick bound="every 64-bit value"
#[kani::proof]
#[kani::unwind(36)]
fn c19_text_keys_appeui() { key_text!(crate::keys::AppEui, 8, true) }
// @verif props=C19,C03 obligation=keys::AppSKey.from_str.contract label=proved-complete tier=quick bound="every ASCII text of 31..=33 characters"
#[kani::proof]
#[kani::unwind(36)]
fn c19_text_appskey_parse() { key_parse_total!(crate::keys::AppSKey, 16, false) }
// @verif props=C19,C03 obligation=keys::DevEui.from_str.contract label=proved-complete tier=quick bound="every ASCII text of 15..=17 characters"
#[kani::proof]
#[kani::unwind(36)]
fn c19_text_keys_deveui_parse() { key_parse_total!(crate::keys::DevEui, 8, true) }

// ---- the remaining instantiations of the three macros (same macro text, different types)
// @verif props=C19 obligation=parser::McAddr.text_roundtrip label=proved-complete tier=quick bound="every 32-bit value"
#[kani::proof]
#[kani::unwind(36)]
fn c19_text_mcaddr() { newtype_text!(crate::parser::McAddr, 4) }
// @verif props=C19 obligation=parser::JoinNonce.text_roundtrip label=proved-complete tier=quick bound="every 24-bit value"
#[kani::proof]
#[kani::unwind(36)]
fn c19_text_joinnonce() { newtype_text!(crate::parser::JoinNonce, 3) }
// @verif props=C19 obligation=parser::NetId.text_roundtrip label=proved-complete tier=quick bound="every 24-bit value"
#[kani::proof]
#[kani::unwind(36)]
fn c19_text_netid() { newtype_text!(crate::parser::NetId, 3) }
// @verif props=C19 obligation=keys::NwkSKey.text_roundtrip label=proved-complete tier=quick bound="every 128-bit value"
#[kani::proof]
#[kani::unwind(36)]
fn c19_text_nwkskey() { key_text!(crate::keys::NwkSKey, 16, false) }
// @verif props=C19 obligation=keys::AppSKey.text_roundtrip label=proved-complete tier=quick bound="every 128-bit value"
#[kani::proof]
#[kani::unwind(36)]
fn c19_text_appskey() { key_text!(crate::keys::AppSKey, 16, false) }
// @verif props=C19 obligation=keys::McKey+McRootKey.text_roundtrip label=proved-complete tier=thorough bound="every 128-bit value"
#[kani::proof]
#[kani::unwind(36)]
fn c19_text_mckeys() { key_text!(crate::keys::McKey, 16, false); key_text!(crate::keys::McRootKey, 16, false) }
// @verif props=C19 obligation=keys::McKEKey+McNetSKey+McAppSKey+GenAppKey.text_roundtrip label=proved-complete tier=thorough bound="every 128-bit value"
#[kani::proof]
#[kani::unwind(36)]
fn c19_text_mckeys2() { key_text!(crate::keys::McKEKey, 16, false); key_text!(crate::keys::McNetSKey, 16, false); key_text!(crate::keys::McAppSKey, 16, false); key_text!(crate::keys::GenAppKey, 16, false) }
