// Contracts + harnesses for the *text forms* of identifiers, addresses and keys (C19, second half):
//   parser.rs   wire_value_newtype!  Display ("{:0width$x}" of the logical value) / FromStr (from_str_radix)
//   string.rs   fixed_len_struct_impl_to_string_msb! (keys: hex::encode_to_slice / hex::decode_to_slice)
//               fixed_len_struct_impl_string_lsb!    (keys::DevEui / AppEui: reversed)
// The real `core::fmt` and `hex` code is compiled and executed symbolically; the sink is a fixed buffer implementing
// `core::fmt::Write` (the only user-supplied part, A-sink).  Contract, taken from the property statement:
//   print(v) is exactly 2*N hex digits, MSB first (spec written here with shifts, independent of fmt/hex);
//   parse(print(v)) == Ok(v) for EVERY v; parse accepts upper-case digits with the same value;
//   a text of another length, or with a character that is not a hex digit, is refused (never a panic).
// @inject file=lorawan-encoding/src/string.rs mod=verif_text
// @job pkg=lorawan zflags=function-contracts,stubbing
// @requires common_tape
#![allow(dead_code)]
use crate::verif_tape as tape;
use core::fmt::Write;
use core::str::FromStr;

pub(crate) struct Sink { pub b: [u8; 40], pub n: usize, pub overflow: bool }
impl Sink { pub(crate) fn new() -> Self { Sink { b: [0; 40], n: 0, overflow: false } } }
impl Write for Sink {
    fn write_str(&mut self, s: &str) -> core::fmt::Result {
        let bytes = s.as_bytes();
        let mut i = 0;
        while i < bytes.len() {
            if self.n >= 40 { self.overflow = true; return Err(core::fmt::Error); }
            self.b[self.n] = bytes[i]; self.n += 1; i += 1;
        }
        Ok(())
    }
}
const DIGITS: &[u8; 16] = b"0123456789abcdef";
/// spec: the k-th character (0 = leftmost) of the MSB-first hex form of a value stored MSB-first in `msb`
fn spec_digit(msb: &[u8], k: usize) -> u8 { let b = msb[k / 2]; DIGITS[(if k % 2 == 0 { b >> 4 } else { b & 0x0f }) as usize] }
fn hexval(c: u8) -> Option<u8> { match c { b'0'..=b'9' => Some(c - b'0'), b'a'..=b'f' => Some(c - b'a' + 10), b'A'..=b'F' => Some(c - b'A' + 10), _ => None } }

// ------------------------------------------------------------------------------------------------ parser.rs newtypes
macro_rules! newtype_text {
    ($t:ty, $n:literal) => {{
        tape::init();
        let wire: [u8; $n] = tape::arr();
        let upper: [u8; 16] = tape::arr();
        let v = <$t>::from_wire_bytes(wire);
        let mut msb = wire; msb.reverse();
        let mut w = Sink::new();
        let r = write!(w, "{}", v);
        assert!(r.is_ok() && !w.overflow && w.n == 2 * $n, "C19 the text form is exactly 2N characters");
        let mut k = 0;
        while k < 2 * $n { assert!(w.b[k] == spec_digit(&msb, k), "C19 text form = MSB-first lower-case hex of the wire value"); k += 1; }
        // parse what was printed, with any mixture of upper/lower case
        let mut txt = [0u8; 2 * $n];
        let mut k = 0;
        while k < 2 * $n { let c = w.b[k]; txt[k] = if upper[k] & 1 == 1 && c >= b'a' { c - 32 } else { c }; k += 1; }
        let s = unsafe { core::str::from_utf8_unchecked(&txt) }; // txt holds ASCII hex digits only (asserted above)
        let back = <$t>::from_str(s);
        assert!(back == Ok(v), "C19 parse(print(v)) == v, for every value, in either letter case");
        kani::cover!(back.is_ok(), "verif-reached: round trip");
    }};
}
// @verif props=C19 obligation=parser::DevAddr.text_roundtrip label=proved-complete tier=quick bound="every 32-bit value; text of exactly 8 characters, any letter case"
#[kani::proof]
#[kani::unwind(36)]
fn c19_text_devaddr() { newtype_text!(crate::parser::DevAddr, 4) }
// @verif props=C19 obligation=parser::DevNonce.text_roundtrip label=proved-complete tier=quick bound="every 16-bit value"
#[kani::proof]
#[kani::unwind(36)]
fn c19_text_devnonce() { newtype_text!(crate::parser::DevNonce, 2) }
// @verif props=C19 obligation=parser::DevEui.text_roundtrip label=proved-complete tier=quick bound="every 64-bit value"
#[kani::proof]
#[kani::unwind(36)]
fn c19_text_deveui() { newtype_text!(crate::parser::DevEui, 8) }
// @verif props=C19 obligation=parser::JoinEui.text_roundtrip label=proved-complete tier=quick bound="every 64-bit value"
#[kani::proof]
#[kani::unwind(36)]
fn c19_text_joineui() { newtype_text!(crate::parser::JoinEui, 8) }
