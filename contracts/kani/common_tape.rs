// Input tape shared by all harness modules of a crate.
//
// Every symbolic input of a harness is read from ONE `kani::any::<[u8; N]>()` array drawn at the start
// (a second one feeds the contract-stubs, whose number of calls depends on the path).  A CBMC trace then
// contains the whole input as one value, so a counterexample maps back to the harness inputs without
// depending on which assignments the solver's slicing kept (tools/kanirun.py trace_values), and the
// concrete playback (native execution of the harness, i.e. of the real code) consumes it byte by byte.
// @inject file=lora-modulation/src/lib.rs mod=verif_tape
// @inject file=lorawan-encoding/src/lib.rs mod=verif_tape
// @inject file=lorawan-device/src/lib.rs mod=verif_tape
// @inject file=lora-phy/src/lib.rs mod=verif_tape
#![allow(dead_code, static_mut_refs)]

pub(crate) const TAPE_LEN: usize = 160;
pub(crate) const STUB_LEN: usize = 96;

pub(crate) struct Tape<const N: usize> { b: [u8; N], p: usize }
static mut MAIN: Tape<TAPE_LEN> = Tape { b: [0; TAPE_LEN], p: 0 };
static mut STUB: Tape<STUB_LEN> = Tape { b: [0; STUB_LEN], p: 0 };

/// draw the inputs of this harness run; call first
pub(crate) fn init() {
    unsafe {
        MAIN.b = kani::any();
        MAIN.p = 0;
        STUB.b = kani::any();
        STUB.p = 0;
    }
}
pub(crate) fn u8() -> u8 {
    unsafe {
        let p = MAIN.p;
        assert!(p < TAPE_LEN, "verif-machinery: input tape exhausted");
        MAIN.p = p + 1;
        MAIN.b[p]
    }
}
/// nondeterminism for contract-stubs (separate tape: the number of stub calls is path dependent)
pub(crate) fn stub_u8() -> u8 {
    unsafe {
        let p = STUB.p;
        assert!(p < STUB_LEN, "verif-machinery: stub tape exhausted");
        STUB.p = p + 1;
        STUB.b[p]
    }
}
pub(crate) fn stub_arr<const N: usize>() -> [u8; N] { let mut a = [0u8; N]; let mut i = 0; while i < N { a[i] = stub_u8(); i += 1; } a }
pub(crate) fn stub_bool() -> bool { stub_u8() & 1 == 1 }
pub(crate) fn boolean() -> bool { u8() & 1 == 1 }
pub(crate) fn i8() -> i8 { u8() as i8 }
pub(crate) fn u16() -> u16 { u16::from_le_bytes([u8(), u8()]) }
pub(crate) fn u32() -> u32 { u32::from_le_bytes([u8(), u8(), u8(), u8()]) }
pub(crate) fn i32() -> i32 { u32() as i32 }
pub(crate) fn u64() -> u64 { (u32() as u64) | ((u32() as u64) << 32) }
pub(crate) fn arr<const N: usize>() -> [u8; N] { let mut a = [0u8; N]; let mut i = 0; while i < N { a[i] = u8(); i += 1; } a }
pub(crate) fn opt_u8() -> Option<u8> { let s = boolean(); let v = u8(); if s { Some(v) } else { None } }
pub(crate) fn opt_u32() -> Option<u32> { let s = boolean(); let v = u32(); if s { Some(v) } else { None } }
/// a value in 0..n (n <= 256)
pub(crate) fn below(n: usize) -> usize { let v = u8() as usize; kani::assume(v < n); v }
