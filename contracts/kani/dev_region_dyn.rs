// Contracts + harnesses for lorawan-device/src/region/dynamic_channel_plans/mod.rs
// (C04 panic-freedom / invariant, C08 exact effects, C09 channel selection, C10 RX1 frequency pairing, C11 CFList)
// @inject file=lorawan-device/src/region/dynamic_channel_plans/mod.rs mod=verif_dyn
// @job pkg=lorawan-device zflags=function-contracts,stubbing
// @requires common_tape dev_region
use super::*;
use crate::verif_tape as tape;

pub(crate) use crate::region::verif_region::TapeRng;

// ------------------------------------------------------------------ representation invariant (DESIGN 3.2)
/// join channels are defined and never move
pub(crate) fn join_channels_ok<R: DynamicChannelRegion + Clone>(p: &DynamicChannelPlan<R>) -> bool {
    let fresh = { let mut c: ChannelPlan = [None; 16]; R::init_channels(&mut c); c };
    let mut i = 0;
    let mut ok = true;
    while i < 16 {
        if i < R::NUM_JOIN_CHANNELS as usize {
            match (p.channels[i], fresh[i]) {
                (Some(a), Some(b)) => { if a.frequency != b.frequency { ok = false; } }
                _ => { ok = false; }
            }
        }
        i += 1;
    }
    ok
}
/// some channel is both enabled in the mask and defined: the retry loop of select_tx_channel can exit
pub(crate) fn usable<R: DynamicChannelRegion + Clone>(p: &DynamicChannelPlan<R>) -> bool {
    let mut i = 0;
    let mut ok = false;
    while i < 16 {
        if (p.channel_mask.get_index(i >> 3) >> (i & 7)) & 1 == 1 && p.channels[i].is_some() { ok = true; }
        i += 1;
    }
    ok
}
/// every defined channel lies in the region's band
pub(crate) fn inband<R: DynamicChannelRegion + Clone>(p: &DynamicChannelPlan<R>) -> bool {
    let mut i = 0;
    let mut ok = true;
    while i < 16 {
        if let Some(c) = p.channels[i] { if !(p.frequency_valid)(c.frequency) { ok = false; } }
        i += 1;
    }
    ok
}
pub(crate) fn wf_plan<R: DynamicChannelRegion + Clone>(p: &DynamicChannelPlan<R>) -> bool { join_channels_ok(p) && usable(p) }

/// arbitrary plan state: join channels as initialised, every other slot either empty or any channel, any mask
pub(crate) fn any_plan<R: DynamicChannelRegion + Clone>(fresh: DynamicChannelPlan<R>) -> DynamicChannelPlan<R> {
    let mut p = fresh;
    let mut i = R::NUM_JOIN_CHANNELS as usize;
    // five slots after the join channels get arbitrary content (CFList range); the rest stay as they are unless chosen
    let mut k = 0;
    while k < 5 {
        let def = tape::boolean();
        let f = tape::u32();
        let dr = tape::u8();
        let dl = tape::opt_u32();
        if def { p.channels[i + k] = Some(Channel { frequency: f, _datarates: DataRateRange::new_from_raw(dr), dl_frequency: dl }); }
        k += 1;
    }
    i += 5;
    // one more arbitrary slot anywhere above
    let j = tape::below(16);
    if j >= i && tape::boolean() {
        p.channels[j] = Some(Channel { frequency: tape::u32(), _datarates: DataRateRange::new_from_raw(tape::u8()), dl_frequency: tape::opt_u32() });
    }
    let m: [u8; 9] = tape::arr();
    p.channel_mask = ChannelMask::from(m);
    p
}
pub(crate) fn plan_eq<R: DynamicChannelRegion + Clone>(a: &DynamicChannelPlan<R>, b: &DynamicChannelPlan<R>) -> bool {
    let mut i = 0;
    let mut ok = a.channel_mask == b.channel_mask;
    while i < 16 {
        match (a.channels[i], b.channels[i]) {
            (None, None) => {}
            (Some(x), Some(y)) => { if x.frequency != y.frequency || x._datarates != y._datarates || x.dl_frequency != y.dl_frequency { ok = false; } }
            _ => { ok = false; }
        }
        i += 1;
    }
    ok
}

// ------------------------------------------------------------------ get_datarate: total on all 256 inputs
fn get_datarate_total<R: DynamicChannelRegion + Clone>(p: DynamicChannelPlan<R>) {
    let dr = tape::u8();
    let r = p.get_datarate(dr);
    assert!(r.is_some() == (dr < NUM_DATARATES && R::datarates()[(dr % NUM_DATARATES) as usize].is_some()), "get_datarate(dr) is Some exactly for region-defined data rates");
    kani::cover!(dr == 15, "verif-reached: DR15");
    kani::cover!(r.is_some(), "verif-reached: defined");
}
// @verif props=C04,C11 obligation=DynamicChannelPlan::get_datarate.total[EU868] label=proved-complete tier=quick
#[kani::proof]
fn c04_dyn_get_datarate_eu868() { tape::init(); get_datarate_total(EU868::new_eu868()) }
// @verif props=C04,C11 obligation=DynamicChannelPlan::get_datarate.total[AS923_1] label=proved-complete tier=quick
#[kani::proof]
fn c04_dyn_get_datarate_as923() { tape::init(); get_datarate_total(AS923_1::new_as924()) }
// @verif props=C04,C11 obligation=DynamicChannelPlan::get_datarate.total[IN865] label=proved-complete tier=thorough
#[kani::proof]
fn c04_dyn_get_datarate_in865() { tape::init(); get_datarate_total(IN865::new_in865()) }
// @verif props=C04,C11 obligation=DynamicChannelPlan::get_datarate.total[EU433] label=proved-complete tier=thorough
#[kani::proof]
fn c04_dyn_get_datarate_eu433() { tape::init(); get_datarate_total(EU433::new_eu433()) }

// ------------------------------------------------------------------ channel_mask_update: all ChMaskCntl x all masks
/// RP002 (EU868/EU433/IN865/AS923): ChMaskCntl 0 -> channels 0..15 from ChMask; 6 -> all defined channels on; others RFU
fn channel_mask_update_contract<R: DynamicChannelRegion + Clone>(fresh: DynamicChannelPlan<R>) {
    let p = any_plan(fresh);
    let start: [u8; 9] = tape::arr();
    let mut m = ChannelMask::<9>::from(start);
    let ctl = tape::u8();
    let b0 = tape::u8();
    let b1 = tape::u8();
    let r = p.channel_mask_update(&mut m, ctl, ChannelMask::<2>::from([b0, b1]));
    // C04: returned at all (no panic) for every ChMaskCntl value a LinkADRReq can carry (3 bits) -- and any u8
    if ctl == 0 {
        assert!(r.is_some() && m.get_index(0) == b0 && m.get_index(1) == b1, "ChMaskCntl 0: ChMask applies to channels 0..15");
        let mut i = 2; while i < 9 { assert!(m.get_index(i) == start[i], "ChMaskCntl 0 leaves other banks alone"); i += 1; }
    } else if ctl == 6 {
        assert!(r.is_some() && m.get_index(0) == 0xFF && m.get_index(1) == 0xFF, "ChMaskCntl 6: all channels on");
    } else {
        // C08: RFU values must be reported as such so that the request can be NAKed
        assert!(r.is_none(), "C08 RFU ChMaskCntl for a dynamic-plan region is refused");
        assert!(m == ChannelMask::<9>::from(start), "a refused ChMaskCntl leaves the working mask alone");
    }
    kani::cover!(ctl == 4, "verif-reached: ChMaskCntl 4");
    kani::cover!(ctl == 7, "verif-reached: ChMaskCntl 7");
}
// @verif props=C04,C08 obligation=DynamicChannelPlan::channel_mask_update.contract[EU868] label=proved-complete tier=quick
#[kani::proof]
#[kani::unwind(17)]
fn c04_dyn_channel_mask_update_eu868() { tape::init(); channel_mask_update_contract(EU868::new_eu868()) }

// ------------------------------------------------------------------ channel_mask_validate
fn channel_mask_validate_contract<R: DynamicChannelRegion + Clone>(fresh: DynamicChannelPlan<R>) {
    let p = any_plan(fresh);
    let m: [u8; 9] = tape::arr();
    let dr = tape::opt_u8().map(DR::from);
    let r = p.channel_mask_validate(&ChannelMask::<9>::from(m), dr);
    let mut q = p.clone();
    q.channel_mask = ChannelMask::<9>::from(m);
    assert!(r == usable(&q), "C09 a mask is accepted exactly when it leaves a defined channel enabled");
    kani::cover!(r, "verif-reached: accepted");
    kani::cover!(!r, "verif-reached: refused");
}
// @verif props=C04,C08,C09 obligation=DynamicChannelPlan::channel_mask_validate.contract[EU868] label=proved-complete tier=quick
#[kani::proof]
#[kani::unwind(17)]
fn c09_dyn_channel_mask_validate_eu868() { tape::init(); channel_mask_validate_contract(EU868::new_eu868()) }

// ------------------------------------------------------------------ handle_new_channel / channel_dl_update
/// KF-C09-1 (open finding): removing (frequency 0) the only channel that is both enabled and defined.
pub(crate) fn kf_removal_strands<R: DynamicChannelRegion + Clone>(old: &DynamicChannelPlan<R>, index: u8, freq: u32) -> bool {
    if freq != 0 || index < R::NUM_JOIN_CHANNELS || index >= 16 { return false; }
    let mut q = old.clone();
    q.channels[index as usize] = None;
    !usable(&q)
}
fn handle_new_channel_contract<R: DynamicChannelRegion + Clone>(fresh: DynamicChannelPlan<R>, witness: bool) {
    let mut p = any_plan(fresh);
    kani::assume(wf_plan(&p));
    let was_inband = inband(&p);
    let old = p.clone();
    let index = tape::u8();
    let freq = (tape::u32() & 0x00FF_FFFF) * 100;   // every 24-bit wire frequency
    kani::assume(kf_removal_strands(&old, index, freq) == witness);
    let drb = tape::u8();
    let dr = DataRateRange::new(drb).ok();            // as Session::handle_downlink_macs passes it
    let (ack_f, ack_d) = p.handle_new_channel(index, freq, dr);
    let i = index as usize;
    if ack_f && ack_d {
        // full acceptance: exactly channel `index` was created / replaced / removed, and it is a modifiable slot
        assert!(index >= R::NUM_JOIN_CHANNELS && i < 16, "C08 join channels and out-of-plan indices are never modified");
        if freq == 0 {
            assert!(p.channels[i].is_none() && !p.channel_mask.is_enabled(i).unwrap(), "C08 frequency 0 removes and disables the channel");
        } else {
            let c = p.channels[i].unwrap();
            assert!(c.frequency == freq && c.dl_frequency.is_none() && c._datarates.raw_value() == drb, "C08 accepted NewChannelReq created the channel as commanded");
            assert!((p.frequency_valid)(freq), "C08/C09 an accepted channel lies in the band");
            assert!(p.channel_mask.is_enabled(i).unwrap(), "C08 the created channel is enabled");
        }
        let mut k = 0;
        while k < 16 {
            if k != i {
                assert!(p.channel_mask.is_enabled(k).unwrap() == old.channel_mask.is_enabled(k).unwrap(), "other mask bits untouched");
                match (p.channels[k], old.channels[k]) {
                    (None, None) => {}
                    (Some(a), Some(b)) => assert!(a.frequency == b.frequency && a.dl_frequency == b.dl_frequency, "other channels untouched"),
                    _ => assert!(false, "other channels untouched"),
                }
            }
            k += 1;
        }
    } else {
        assert!(plan_eq(&p, &old), "C08 a NewChannelReq that is not fully accepted changes nothing");
    }
    assert!(join_channels_ok(&p), "C04/C09 join channels survive every NewChannelReq");
    assert!(!was_inband || inband(&p), "C09 NewChannelReq keeps every defined channel in the band");
    // the invariant the transmit path needs: some enabled, defined channel remains
    assert!(usable(&p), "C04/C09 NewChannelReq never leaves the device without a usable channel");
    kani::cover!(ack_f && ack_d && freq == 0, "verif-reached: removal");
    kani::cover!(witness || (ack_f && ack_d && freq != 0), "verif-reached: creation");
    kani::cover!(witness || !ack_f, "verif-reached: frequency refused");
}
// @verif props=C04,C08,C09 obligation=DynamicChannelPlan::handle_new_channel.contract[EU868] label=proved-complete tier=quick
#[kani::proof]
#[kani::unwind(17)]
fn c08_dyn_handle_new_channel_eu868() { tape::init(); handle_new_channel_contract(EU868::new_eu868(), false) }
// @verif props=C04,C08,C09 obligation=DynamicChannelPlan::handle_new_channel.contract[AS923_1] label=proved-complete tier=thorough
#[kani::proof]
#[kani::unwind(17)]
fn c08_dyn_handle_new_channel_as923() { tape::init(); handle_new_channel_contract(AS923_1::new_as924(), false) }
// witness of KF-C09-1: the same contract on exactly the excluded input class; expected to FAIL while the finding is open
// @verif props=C04,C09 obligation=DynamicChannelPlan::handle_new_channel.contract[EU868,KF-C09-1] label=proved-complete tier=quick finding=KF-C09-1
#[kani::proof]
#[kani::unwind(17)]
fn c09_dyn_handle_new_channel_kf1_witness() { tape::init(); handle_new_channel_contract(EU868::new_eu868(), true) }

fn channel_dl_update_contract<R: DynamicChannelRegion + Clone>(fresh: DynamicChannelPlan<R>) {
    let mut p = any_plan(fresh);
    kani::assume(wf_plan(&p));
    let old = p.clone();
    let index = tape::u8();
    let freq = (tape::u32() & 0x00FF_FFFF) * 100;
    let (ack_f, ack_c) = p.channel_dl_update(index, freq);
    let i = index as usize;
    assert!(ack_f == (p.frequency_valid)(freq), "C08 frequency ack == frequency usable in the region");
    if ack_f && ack_c {
        assert!(i < 16 && old.channels[i].is_some(), "C08 DlChannelReq accepted only for a defined uplink channel");
        let c = p.channels[i].unwrap();
        assert!(c.frequency == old.channels[i].unwrap().frequency, "uplink frequency untouched");
        assert!(c.rx1_frequency() == freq, "C08/C10 RX1 of that channel now listens on the commanded frequency");
    } else {
        assert!(plan_eq(&p, &old), "C08 a DlChannelReq that is not fully accepted changes nothing");
    }
    let mut k = 0;
    while k < 16 {
        if k != i || !(ack_f && ack_c) {
            match (p.channels[k], old.channels[k]) {
                (None, None) => {}
                (Some(a), Some(b)) => assert!(a.frequency == b.frequency && a.dl_frequency == b.dl_frequency, "other channels untouched"),
                _ => assert!(false, "other channels untouched"),
            }
        }
        k += 1;
    }
    assert!(p.channel_mask == old.channel_mask && wf_plan(&p), "mask untouched, invariant kept");
    kani::cover!(ack_f && ack_c, "verif-reached: accepted");
    kani::cover!(!ack_f && ack_c, "verif-reached: bad frequency on an existing channel");
    kani::cover!(index >= 16, "verif-reached: index out of plan");
}
// @verif props=C04,C08,C10 obligation=DynamicChannelPlan::channel_dl_update.contract[EU868] label=proved-complete tier=quick
#[kani::proof]
#[kani::unwind(17)]
fn c08_dyn_channel_dl_update_eu868() { tape::init(); channel_dl_update_contract(EU868::new_eu868()) }

// ------------------------------------------------------------------ process_join_accept (CFList)
/// KF-C09-2 (open finding): a type 0 CFList whose zero entries remove every channel that is enabled and defined
pub(crate) fn kf_cflist_strands<R: DynamicChannelRegion + Clone>(old: &DynamicChannelPlan<R>, kind: usize, freqs: &[[u8; 3]; 5]) -> bool {
    if kind != 1 { return false; }
    let mut q = old.clone();
    let mut n = 0;
    while n < 5 {
        if freqs[n] == [0, 0, 0] { q.channels[R::NUM_JOIN_CHANNELS as usize + n] = None; }
        n += 1;
    }
    !usable(&q)
}
fn process_join_accept_contract<R: DynamicChannelRegion + Clone>(fresh: DynamicChannelPlan<R>, witness: bool) {
    let mut p = any_plan(fresh);
    kani::assume(wf_plan(&p) && inband(&p));
    let old = p.clone();
    let kind = tape::below(3);
    let freqs: [[u8; 3]; 5] = [tape::arr(), tape::arr(), tape::arr(), tape::arr(), tape::arr()];
    kani::assume(kf_cflist_strands(&old, kind, &freqs) == witness);
    let mask: [u8; 9] = tape::arr();
    let cfl = match kind {
        0 => None,
        1 => Some(CfList::DynamicChannel([
            lorawan::parser::Frequency::from_wire_bytes(freqs[0]), lorawan::parser::Frequency::from_wire_bytes(freqs[1]),
            lorawan::parser::Frequency::from_wire_bytes(freqs[2]), lorawan::parser::Frequency::from_wire_bytes(freqs[3]),
            lorawan::parser::Frequency::from_wire_bytes(freqs[4])])),
        _ => Some(CfList::FixedChannel(ChannelMask::<9>::from(mask))),
    };
    p.process_join_accept(cfl.as_ref());
    assert!(join_channels_ok(&p), "C11 join channels survive the CFList");
    assert!(usable(&p), "C04/C09 a CFList never leaves the device without a usable channel");
    // C11: "applied when valid for the region and ignored when not": every channel now defined lies in the band
    assert!(inband(&p), "C09/C11 CFList frequencies outside the region's band are not installed");
    if kind != 1 { assert!(plan_eq(&p, &old), "C11 no CFList / a CFList of another type changes nothing on a dynamic plan"); }
    if kind == 1 {
        // C11 "the accept's channel list is applied when valid for the region and ignored when not", entry by entry
        // (LoRaWAN 1.0.x 7.x.4: the five frequencies define channels J..J+4, DR0..DR5; 0 = the channel is unused):
        assert!(p.channel_mask == old.channel_mask, "C11 a type 0 CFList does not touch the channel mask");
        let j = R::NUM_JOIN_CHANNELS as usize;
        let mut i = 0;
        while i < 16 {
            let same = match (p.channels[i], old.channels[i]) {
                (None, None) => true,
                (Some(x), Some(y)) => x.frequency == y.frequency && x._datarates == y._datarates && x.dl_frequency == y.dl_frequency,
                _ => false };
            if i < j || i >= j + 5 { assert!(same, "C11 channels outside J..J+4 are not touched by the CFList"); }
            else {
                let f = (freqs[i - j][0] as u32 | (freqs[i - j][1] as u32) << 8 | (freqs[i - j][2] as u32) << 16) * 100;
                if f == 0 { assert!(p.channels[i].is_none(), "C11 a zero CFList entry marks the channel unused: it is not defined afterwards"); }
                else if p.frequency_valid(f) {
                    match p.channels[i] {
                        Some(c) => assert!(c.frequency == f && c.dl_frequency.is_none() && c._datarates.min_data_rate() == 0 && c._datarates.max_data_rate() == 5,
                                           "C11 a valid CFList entry defines the channel: that frequency, DR0..DR5, RX1 on the same frequency"),
                        None => assert!(false, "C11 a valid CFList entry defines the channel"),
                    }
                } else { assert!(same, "C11 a CFList entry outside the band is ignored (the channel stays as it was)"); }
            }
            i += 1;
        }
        kani::cover!(freqs[0] == [0, 0, 0] && old.channels[j].is_some(), "verif-reached: zero entry over a defined channel");
    }
    kani::cover!(kind == 1, "verif-reached: type 0 CFList");
}
// @verif props=C04,C09,C11 obligation=DynamicChannelPlan::process_join_accept.contract[EU868] label=proved-complete tier=quick
#[kani::proof]
#[kani::unwind(17)]
fn c11_dyn_process_join_accept_eu868() { tape::init(); process_join_accept_contract(EU868::new_eu868(), false) }
// witness of KF-C09-2, expected to FAIL while the finding is open
// @verif props=C04,C09,C11 obligation=DynamicChannelPlan::process_join_accept.contract[EU868,KF-C09-2] label=proved-complete tier=quick finding=KF-C09-2
#[kani::proof]
#[kani::unwind(17)]
fn c09_dyn_process_join_accept_kf2_witness() { tape::init(); process_join_accept_contract(EU868::new_eu868(), true) }

// ------------------------------------------------------------------ select_tx_channel (C09) with progress obligation
/// does the channel's recorded data-rate range (NewChannelReq / regional default) admit `dr`?
fn range_admits(c: &Channel, dr: u8) -> bool { c._datarates.min_data_rate() <= dr && dr <= c._datarates.max_data_rate() }
fn select_tx_channel_contract<R: DynamicChannelRegion + Clone>(fresh: DynamicChannelPlan<R>, join: bool) { select_tx_channel_contract_kf(fresh, join, false) }
/// `kf6`: KF-C09-6 partition -- the witness runs on plans where the accepting channel's range excludes the data rate
fn select_tx_channel_contract_kf<R: DynamicChannelRegion + Clone>(fresh: DynamicChannelPlan<R>, join: bool, kf6: bool) {
    let mut p = any_plan(fresh);
    kani::assume(wf_plan(&p));
    let dr = tape::u8();
    kani::assume(dr < NUM_DATARATES && R::datarates()[dr as usize].is_some());   // wf_conf: configured DR is region-defined
    let old = p.clone();
    // an accepting draw exists by the invariant: join -> channel 0; data -> some enabled & defined channel w
    let w = tape::below(16);
    kani::assume(join || (p.channel_mask.is_enabled(w).unwrap() && p.channels[w].is_some()));
    if !join {
        // KF-C09-6 selector: some enabled, defined channel does not admit the configured data rate
        let mut all_admit = true;
        let mut i = 0;
        while i < 16 { if let Some(c) = p.channels[i] { if p.channel_mask.is_enabled(i).unwrap() && !range_admits(&c, dr) { all_admit = false; } } i += 1; }
        kani::assume(all_admit != kf6);
        if kf6 { kani::assume(!range_admits(&p.channels[w].unwrap(), dr)); }
    }
    let mut rng = TapeRng { draws: 0, free: if kf6 { 0 } else { 2 }, accept: if join { 0 } else { w as u32 } };
    let frame = if join { Frame::Join } else { Frame::Data };
    let tx = p.select_tx_channel(&mut rng, DR::from(dr), &frame);
    assert!(plan_eq(&p, &old), "select_tx_channel does not modify the plan");
    assert!(tx.dr as u8 == dr, "C09 the configured data rate is used");
    let mut found = false;
    let mut i = 0;
    while i < 16 {
        if let Some(c) = old.channels[i] {
            let enabled = old.channel_mask.is_enabled(i).unwrap();
            let candidate = if join { i < R::NUM_JOIN_CHANNELS as usize } else { enabled };
            if candidate && c.frequency == tx.frequency && c.rx1_frequency() == tx.rx1_frequency && (join || range_admits(&c, dr)) { found = true; }
        }
        i += 1;
    }
    assert!(found, "C09 the uplink goes out on a defined, enabled channel (join: a join channel) whose data-rate range admits the data rate used; C10 RX1 frequency is the one paired with it");
    kani::cover!(true, "verif-reached: a channel was selected");
}
// @verif props=C04,C09,C10 obligation=DynamicChannelPlan::select_tx_channel.contract[Data,EU868] label=proved-complete tier=quick bound="random streams = 2 arbitrary draws then an accepting draw whose existence follows from the invariant; termination against an adversarial stream needs A-rng (meta)"
#[kani::proof]
#[kani::unwind(17)]
fn c09_dyn_select_tx_channel_data_eu868() {
    tape::init();
    select_tx_channel_contract(EU868::new_eu868(), false)
}
// witness of KF-C09-6 (EU433: DR6 is SF7/250 kHz, the default channels admit DR0..5), expected to FAIL while the finding is open
// @verif props=C09 obligation=DynamicChannelPlan::select_tx_channel.contract[Data,EU433,KF-C09-6] label=proved-complete tier=quick finding=KF-C09-6
#[kani::proof]
#[kani::unwind(17)]
fn c09_dyn_select_tx_channel_kf6_witness() { tape::init(); select_tx_channel_contract_kf(EU433::new_eu433(), false, true) }
// @verif props=C04,C09,C10 obligation=DynamicChannelPlan::select_tx_channel.contract[Join,EU868] label=proved-complete tier=quick bound="random streams = 2 arbitrary draws then an accepting draw"
#[kani::proof]
#[kani::unwind(17)]
fn c09_dyn_select_tx_channel_join_eu868() { tape::init(); select_tx_channel_contract(EU868::new_eu868(), true) }
