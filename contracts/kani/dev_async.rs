// Contracts + harnesses for lorawan-device/src/async_device/mod.rs on its DE-ASYNC'D text (Y1): C06 counter discipline under
// radio faults, C07 stray frames, C10 window timing of the async front-end.  Built without the class-c feature (its
// between_windows uses select over two live futures, which Y1 cannot represent); MAC layer contract-stubbed.
// @inject file=lorawan-device/src/async_device/mod.rs mod=verif_async
// @job pkg=lorawan-device no-default-features features=all-regions zflags=function-contracts,stubbing
// @requires common_tape dev_uplink dev_region dev_session dev_mac dev_nb
// @deasync lorawan-device/src/async_device/mod.rs lorawan-device/src/async_device/radio.rs
// @subst lorawan-device/src/async_device/mod.rs "#[cfg(test)]" => "#[cfg(all(test, not(kani)))]"
use super::*;
use crate::verif_tape as tape;
use crate::region::verif_region::TapeRng;
use crate::nb_device::state::verif_nb::{stub_mac_send, stub_mac_join, stub_mac_handle_rx, stub_mac_rx2_complete, ML, MAC_MODE};

pub(crate) const LOGN: usize = 12;
/// ghost log of radio + timer calls: kind (1 tx, 2 setup_rx, 3 rx_single, 4 low_power, 5 timer.at, 6 timer.reset) and one argument
pub(crate) struct CallLog { pub n: usize, pub kind: [u8; LOGN], pub arg: [u64; LOGN], pub tx_calls: u8, pub faults: bool, pub stray: bool,
    /// frames the radio delivered (rx_single -> Rx): count, and per frame its length, first byte, SNR and the number of setup_rx calls so far (1: RX1, 2: RX2)
    pub rx_n: usize, pub rx_len: [usize; 4], pub rx_b0: [u8; 4], pub rx_snr: [i8; 4], pub rx_window: [u8; 4], pub setups: u8 }
pub(crate) static mut CL: CallLog = CallLog { n: 0, kind: [0; LOGN], arg: [0; LOGN], tx_calls: 0, faults: false, stray: false, rx_n: 0, rx_len: [0; 4], rx_b0: [0; 4], rx_snr: [0; 4], rx_window: [0; 4], setups: 0 };
fn log(kind: u8, arg: u64) { unsafe { if CL.n < LOGN { CL.kind[CL.n] = kind; CL.arg[CL.n] = arg; CL.n += 1; } } }
fn fault() -> bool { unsafe { CL.faults && tape::stub_u8() & 3 == 0 } }

pub(crate) struct ARadio { lead: u32, buffer: u32 }
#[derive(Debug)] pub(crate) struct AErr(u8);   // not zero-sized (Kani 0.68 loses the Ok path of Result<(), ZST> in some code shapes; DESIGN 15)
impl radio::PhyRxTx for ARadio {
    type PhyError = AErr;
    const MAX_RADIO_POWER: u8 = 14;
    fn tx(&mut self, _config: radio::TxConfig, _buf: &[u8]) -> Result<u32, AErr> { unsafe { CL.tx_calls += 1; } log(1, 0); if fault() { Err(AErr(1)) } else { Ok(tape::stub_u8() as u32) } }
    fn setup_rx(&mut self, config: radio::RxConfig) -> Result<(), AErr> {
        // argument logged: RX frequency in the low half, the extra listening time handed to the radio (Single{ms}) in the high half
        let ms = match config.mode { radio::RxMode::Single { ms } => ms as u64, radio::RxMode::Continuous => 0xffff_ffff };
        log(2, config.rf.frequency as u64 | ms << 32);
        unsafe { CL.setups += 1; } if fault() { Err(AErr(1)) } else { Ok(()) } }
    fn rx_continuous(&mut self, _rx_buf: &mut [u8]) -> Result<(usize, radio::RxQuality), AErr> { Err(AErr(1)) }
    fn rx_single(&mut self, _buf: &mut [u8]) -> Result<radio::RxStatus, AErr> {
        log(3, 0);
        if fault() { return Err(AErr(1)); }
        if unsafe { CL.stray } && tape::stub_bool() {
            // the radio writes the packet to the front of the buffer it was given and reports its length and quality
            let n = (tape::stub_u8() % 32) as usize; let b0 = tape::stub_u8(); let snr = tape::stub_u8() as i8;
            if n > 0 && n <= _buf.len() { _buf[0] = b0; }
            unsafe { let k = CL.rx_n; if k < 4 { CL.rx_len[k] = n; CL.rx_b0[k] = b0; CL.rx_snr[k] = snr; CL.rx_window[k] = CL.setups; } CL.rx_n += 1; }
            Ok(radio::RxStatus::Rx(n, radio::RxQuality::new(0, snr)))
        } else { Ok(radio::RxStatus::RxTimeout) }
    }
    fn low_power(&mut self) -> Result<(), AErr> { log(4, 0); if fault() { Err(AErr(1)) } else { Ok(()) } }
}
// a board may declare a listen buffer shorter than its lead time (trait doc: buffer < lead time); the two are independent inputs
impl Timings for ARadio {
    fn get_rx_window_lead_time_ms(&self) -> u32 { self.lead }
    fn get_rx_window_buffer(&self) -> u32 { self.buffer }
}
pub(crate) struct ATimer;
impl radio::Timer for ATimer {
    fn reset(&mut self) { log(6, 0); }
    fn at(&mut self, millis: u64) { log(5, millis); }
    fn delay_ms(&mut self, _millis: u64) {}
}

fn device(lead: u32) -> Device<ARadio, ATimer, TapeRng, 64, 1> {
    let buffer = tape::below(200) as u32;
    kani::assume(buffer <= lead);
    let mut mac = Mac::new(region::Configuration::new(Region::EU868), 14, 0);
    mac.join_abp(crate::NwkSKey::from([1; 16]), crate::AppSKey::from([2; 16]), crate::DevAddr::from_value(5));
    mac.configuration.rx1_delay = 1000 * (1 + tape::below(15) as u32);
    // any session history (counters in particular) and any state of the application's downlink queue: the
    // application need not have taken an earlier downlink when the next uplink is sent
    let mut s = crate::mac::verif_mac::any_joined_session();
    s.devaddr = crate::DevAddr::from_value(5);
    mac.set_session(s);
    let mut downlink: Vec<Downlink, 1> = Vec::new();
    if tape::boolean() { let _ = downlink.push(Downlink { data: Vec::new(), fport: tape::u8() }); }
    Device { radio: ARadio { lead, buffer }, rng: TapeRng { draws: 0, free: 0, accept: 0 }, timer: ATimer, mac, radio_buffer: RadioBuffer::new(), downlink }
}

/// C06 under radio faults: a radio error after the uplink was handed to the radio must not skip the step that retires FCntUp (KF-C06-1, fixed)
fn send_contract(faults: bool) {
    tape::init();
    unsafe { CL.faults = faults; CL.stray = true; MAC_MODE = 1; }
    let mut d = device(tape::below(200) as u32);
    let r = d.send(&[1, 2], 1, tape::boolean());
    let cl = unsafe { &*(&raw const CL) };
    let ml = unsafe { &*(&raw const ML) };
    if cl.tx_calls > 0 {
        // the frame was handed to the radio: whatever happens next, the counter it used must be retired
        let advanced = ml.rx2_complete >= 1 || (ml.handle_rx >= 1 && ml.resp != 0);
        assert!(advanced, "C06 once an uplink was handed to the radio its frame counter is never reused (rx2_complete or an accepted downlink follows on every path)");
    }
    if !faults { assert!(r.is_ok() || ml.send == 1, "without radio faults send completes"); }
    kani::cover!(r.is_ok(), "verif-reached: send ok");
    kani::cover!(!faults || r.is_err(), "verif-maybe: radio fault");
}

fn rx_downlink_timing(stray: bool) {
    tape::init();
    unsafe { CL.faults = false; CL.stray = stray; }
    let lead = tape::below(200) as u32;
    let mut d = device(lead);
    let join = tape::boolean();
    let frame = if join { Frame::Join } else { Frame::Data };
    let wd = tape::stub_u8() as u32;     // time on air reported by the radio
    let w = mac::RxWindows { rx1: RfConfig { frequency: 1, bb: lora_modulation::BaseBandModulationParams::new(lora_modulation::SpreadingFactor::_7, lora_modulation::Bandwidth::_125KHz, lora_modulation::CodingRate::_4_5), max_payload_len: 59 }, rx2: RfConfig { frequency: 2, bb: lora_modulation::BaseBandModulationParams::new(lora_modulation::SpreadingFactor::_7, lora_modulation::Bandwidth::_125KHz, lora_modulation::CodingRate::_4_5), max_payload_len: 51 } };
    let d1 = d.mac.get_rx_delay(&frame, &Window::_1);
    let d2 = d.mac.get_rx_delay(&frame, &Window::_2);
    let buffer = d.radio.buffer as u64;
    let r = d.rx_downlink(&frame, wd, &w);
    let cl = unsafe { &*(&raw const CL) };
    let ml = unsafe { &*(&raw const ML) };
    // MAC answered NoUpdate to every received frame?  then the radio programme must be the time-out programme
    if ml.handle_rx == 0 || ml.resp == 0 {
        assert!(r.is_ok(), "no faults: completes");
        // low_power, at(RX1), setup_rx(rx1), rx_single, low_power, low_power, at(RX2), setup_rx(rx2), rx_single, low_power
        assert!(cl.n == 10, "C07/C10 the receive procedure issues the same radio/timer calls whether stray frames arrived or not");
        assert!(cl.kind[0] == 4 && cl.kind[1] == 5 && cl.arg[1] == (d1 + wd - lead) as u64, "C10 RX1 armed at end of TX + RX1 delay (join: 5 s), less the board's lead time");
        assert!(cl.kind[2] == 2 && cl.arg[2] == (1 | buffer << 32) && cl.kind[3] == 3 && cl.kind[4] == 4, "C10 RX1 uses the RX1 window bound at TX time");
        assert!(cl.kind[5] == 4 && cl.kind[6] == 5 && cl.arg[6] == (d2 + wd - lead) as u64 && d2 == d1 + 1000, "C10 RX2 armed one second after RX1, adjusted by the same declared lead time and nothing else");
        assert!(cl.kind[7] == 2 && cl.arg[7] == (2 | buffer << 32) && cl.kind[8] == 3 && cl.kind[9] == 4, "C10 RX2 uses the RX2 window bound at TX time");
        assert!(ml.rx2_complete == 1, "C06 the procedure ends with rx2_complete");
    }
    // C18 / C05 / C10: every frame the radio delivered went to the MAC as delivered (length, bytes, SNR), together with the RF
    // configuration of the window it arrived in (RX1: frequency 1 / max 59, RX2: frequency 2 / max 51 in this harness)
    assert!(ml.handle_rx as usize == cl.rx_n, "C18 every received frame is handed to the MAC, once");
    let mut k = 0;
    while k < 4 {
        if k < cl.rx_n {
            assert!(ml.rx_len[k] == cl.rx_len[k] && (cl.rx_len[k] == 0 || ml.rx_b0[k] == cl.rx_b0[k]) && ml.rx_snr[k] == cl.rx_snr[k], "C18 the MAC is handed exactly the bytes (and quality) the radio reported");
            assert!(ml.rx_rf_freq[k] == cl.rx_window[k] as u32 && ml.rx_rf_maxlen[k] == (if cl.rx_window[k] == 1 { 59 } else { 51 }), "C05/C10 a frame is judged by the parameters of the window it was received in (RX1 vs RX2 maximum size)");
        }
        k += 1;
    }
    kani::cover!(ml.handle_rx > 0 && ml.resp == 0, "verif-maybe: stray frame seen");
    kani::cover!(ml.handle_rx == 0, "verif-reached: pure time-out run");
}
// @verif props=C06,C04 obligation=async_device::Device::send.counter_retired[no radio faults] label=proved-complete tier=quick bound="sequential executions of the de-async'd text (Y1); radio never errs; any RX outcome incl. stray frames; MAC contract-stubbed"
#[kani::proof]
#[kani::stub(crate::mac::Mac::send, stub_mac_send)]
#[kani::stub(crate::mac::Mac::join_otaa, stub_mac_join)]
#[kani::stub(crate::mac::Mac::handle_rx, stub_mac_handle_rx)]
#[kani::stub(crate::mac::Mac::rx2_complete, stub_mac_rx2_complete)]
#[kani::unwind(66)]
fn c06_async_send_no_faults() { send_contract(false) }
// (was the witness of KF-C06-1; the defect is fixed in /repo, so this is now a plain obligation over every fault position)
// @verif props=C06 obligation=async_device::Device::send.counter_retired[radio fault at any call] label=proved-complete tier=quick bound="sequential executions of the de-async'd text (Y1); a radio fault may occur at every radio call position"
#[kani::proof]
#[kani::stub(crate::mac::Mac::send, stub_mac_send)]
#[kani::stub(crate::mac::Mac::join_otaa, stub_mac_join)]
#[kani::stub(crate::mac::Mac::handle_rx, stub_mac_handle_rx)]
#[kani::stub(crate::mac::Mac::rx2_complete, stub_mac_rx2_complete)]
#[kani::unwind(66)]
fn c06_async_send_kf1_witness() { send_contract(true) }
// @verif props=C10,C07,C06,C05 obligation=async_device::Device::rx_downlink.programme[time-outs] label=proved-complete tier=quick bound="sequential executions (Y1), both windows time out; any RX delay 1..15 s, lead time 0..199 ms, listen buffer 0..lead time (independent)"
#[kani::proof]
#[kani::stub(crate::mac::Mac::send, stub_mac_send)]
#[kani::stub(crate::mac::Mac::join_otaa, stub_mac_join)]
#[kani::stub(crate::mac::Mac::handle_rx, stub_mac_handle_rx)]
#[kani::stub(crate::mac::Mac::rx2_complete, stub_mac_rx2_complete)]
#[kani::unwind(66)]
fn c10_async_rx_downlink_timeouts() { rx_downlink_timing(false) }
// @verif props=C10,C07,C06,C05,C18 obligation=async_device::Device::rx_downlink.programme[stray frames] label=proved-complete tier=quick bound="sequential executions (Y1), any mix of stray frames and time-outs in RX1/RX2"
#[kani::proof]
#[kani::stub(crate::mac::Mac::send, stub_mac_send)]
#[kani::stub(crate::mac::Mac::join_otaa, stub_mac_join)]
#[kani::stub(crate::mac::Mac::handle_rx, stub_mac_handle_rx)]
#[kani::stub(crate::mac::Mac::rx2_complete, stub_mac_rx2_complete)]
#[kani::unwind(66)]
fn c07_async_rx_downlink_stray() { rx_downlink_timing(true) }

// ------------------------------------------------------------------------------------------------
// C12: "disabling ADR restarts the count" -- Device::set_adr of this front-end, from any session
fn set_adr_post(old: Option<crate::mac::Session>, new: Option<&crate::mac::Session>, old_enabled: bool, now_enabled: bool, arg: bool) {
    let _ = old_enabled;
    assert!(now_enabled == arg, "C12 set_adr stores the flag");
    match (old, new) {
        (Some(o), Some(n)) => {
            if !arg { assert!(n.adr_ack_cnt == 0, "C12 disabling ADR restarts the ADR acknowledgement count"); }
            else { assert!(n.adr_ack_cnt == o.adr_ack_cnt, "C12 enabling ADR leaves the count alone"); }
            assert!(crate::mac::verif_mac::sessions_equal_but_adr_cnt(&o, n), "set_adr frame: nothing else of the session changes");
        }
        (None, None) => {}
        _ => { assert!(false, "set_adr neither creates nor destroys a session"); }
    }
}
// @verif props=C12 obligation=async_device::Device::set_adr.contract label=proved-complete tier=quick bound="joined with any session"
#[kani::proof]
#[kani::unwind(18)]
fn c12_async_set_adr() {
    tape::init();
    let mut d = device(0);
    d.mac.configuration.adr_enabled = tape::boolean();
    let old = d.mac.get_session().cloned();
    let old_enabled = d.get_adr();
    let arg = tape::boolean();
    d.set_adr(arg);
    set_adr_post(old, d.mac.get_session(), old_enabled, d.get_adr(), arg);
    kani::cover!(!arg, "verif-reached: ADR switched off");
    kani::cover!(arg, "verif-reached: ADR switched on");
}
