// Contract of lorawan-device/src/radio.rs RadioBuffer<N>: the hand-off buffer between the radio and the MAC (C18 last clause:
// "the MAC gets exactly the fetched bytes"; C04: no index panic for any length a PhyRxTx may report up to the capacity).
// The front-end harnesses (dev_async*.rs, dev_nb.rs) use buffers much longer than their frames; the boundary cases -- a packet
// that fills the buffer exactly -- are decided here, on the real type, for every position.
// @inject file=lorawan-device/src/radio.rs mod=verif_radio
// @job pkg=lorawan-device zflags=function-contracts,stubbing
// @requires common_tape
use super::*;
use crate::verif_tape as tape;

const CAP: usize = 8;

// @verif props=C18,C04 obligation=RadioBuffer::set_pos+as_ref_for_read.contract label=proved-complete tier=quick bound="capacity 8 (const generic; the code is length-generic and loop-free), every position 0..=capacity, every content"
#[kani::proof]
#[kani::unwind(10)]
fn c18_radio_buffer_set_pos() {
    tape::init();
    let mut b: RadioBuffer<CAP> = RadioBuffer::new();
    assert!(b.as_ref_for_read().is_empty(), "a new buffer holds no packet");
    // the radio writes the received packet through AsMut (the whole capacity is offered) ...
    let content: [u8; CAP] = tape::arr::<CAP>();
    assert!(b.as_mut().len() == CAP, "C18 the radio is offered exactly the buffer's capacity");
    b.as_mut().copy_from_slice(&content);
    // ... and reports n <= capacity (PhyRxTx contract, discharged for LorawanRadio in phy_lorawan.rs)
    let n = tape::below(CAP + 1);
    b.set_pos(n);
    let seen = b.as_ref_for_read();
    assert!(seen.len() == n, "C18 the MAC is handed exactly as many bytes as the radio reported -- also when the packet fills the buffer");
    let mut i = 0;
    while i < CAP { if i < n { assert!(seen[i] == content[i], "C18 ... and exactly those bytes"); } i += 1; }
    assert!(b.as_mut_for_read().len() == n, "the mutable view (in-place decryption) covers the same bytes");
    assert!(b.as_ref().len() == CAP, "the whole buffer stays addressable");
    b.clear();
    assert!(b.as_ref_for_read().is_empty(), "clear() forgets the packet");
    kani::cover!(n == CAP, "verif-reached: packet fills the buffer");
    kani::cover!(n == 0, "verif-reached: empty packet");
}

// @verif props=C18,C04 obligation=RadioBuffer::extend_from_slice.contract label=proved-complete tier=quick bound="capacity 8, every fill level, every slice length 0..=9"
#[kani::proof]
#[kani::unwind(12)]
fn c18_radio_buffer_extend() {
    tape::init();
    let mut b: RadioBuffer<CAP> = RadioBuffer::new();
    let content: [u8; CAP] = tape::arr::<CAP>();
    b.as_mut().copy_from_slice(&content);
    let p = tape::below(CAP + 1);
    b.set_pos(p);
    let src: [u8; CAP + 1] = tape::arr::<{ CAP + 1 }>();
    let k = tape::below(CAP + 2);
    let r = b.extend_from_slice(&src[..k]);
    let seen = b.as_ref_for_read();
    match r {
        Ok(()) => {
            assert!(p + k <= CAP && seen.len() == p + k, "appended bytes fit the capacity; the packet grows by exactly the slice");
            let mut i = 0;
            while i < CAP { if i < p { assert!(seen[i] == content[i], "earlier bytes kept"); } else if i < p + k { assert!(seen[i] == src[i - p], "slice appended in order"); } i += 1; }
        }
        Err(()) => {
            assert!(seen.len() == p, "C07-style frame: a refused append changes nothing");
            let mut i = 0;
            while i < CAP { if i < p { assert!(seen[i] == content[i], "a refused append changes nothing"); } i += 1; }
            assert!(p + k >= CAP, "only an append that would reach the capacity is refused");
        }
    }
    kani::cover!(r.is_ok() && k > 0, "verif-reached: appended");
    kani::cover!(r.is_err(), "verif-reached: refused");
}
