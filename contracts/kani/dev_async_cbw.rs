// Direct contracts on the PRIVATE function `Device::between_windows` (class-c variant) -- split from dev_async_c.rs into a job
// of its own (same features, other job key) so that a change of that private signature makes only THESE obligations
// undecided (exit 2) while the rx_downlink / rxc_listen level obligations of dev_async_c.rs still build and decide.
// Extraction rules Y1 + Y2 as described in dev_async_c.rs.
// @inject file=lorawan-device/src/async_device/radio.rs mod=verif_async_cbw
// @job pkg=lorawan-device no-default-features features=all-regions,class-c zflags=function-contracts,stubbing
// @requires common_tape dev_uplink dev_region dev_session dev_mac dev_nb dev_async_c
use super::*;
use crate::async_device::*;
use crate::async_device::verif_async_c::*;
use crate::verif_tape as tape;
use crate::nb_device::state::verif_nb::{stub_mac_send, stub_mac_join, stub_mac_handle_rx, stub_mac_rx2_complete, ML, MAC_MODE};

/// Class-C `between_windows(duration)`: listens on RXC until the window timer fires -- rejected frames do not end the wait
fn between_windows_contract(class_c: bool) {
    tape::init();
    unsafe { CC.faults = tape::boolean(); CC.budget = 3; MAC_MODE = 1; }
    let mut d = device(tape::below(200) as u32, class_c);
    let rxc = d.mac.get_rxc_config();
    let duration = tape::u32();
    let old_fcnt = d.mac.get_session().map(|s| s.fcnt_up);
    let r = d.between_windows(duration);
    let cl = unsafe { &*(&raw const CC) };
    let ml = unsafe { &*(&raw const ML) };
    if !class_c {
        // Class A: sleep, then wait for the window
        if r.is_ok() { assert!(cl.n == 2 && cl.kind[0] == 4 && cl.kind[1] == 5 && cl.arg[1] == duration as u64 && ml.handle_rx == 0, "C10 Class A: low power, then the window timer"); }
        assert!(cl.selects == 0 && cl.rxc_n == 0, "Class A never listens between windows");
        kani::cover!(r.is_ok(), "verif-maybe: class A wait");
        return;
    }
    assert!(cl.kind[0] == 2 && cl.arg[0] == (rxc.rf.frequency as u64 | 1 << 32), "C10 Class C: the radio is first set up with the RXC configuration (RX2 parameters, continuous)");
    handoff_post(rxc.rf.frequency, rxc.rf.max_payload_len);
    match &r {
        Ok(resp) => {
            assert!(cl.kind[1] == 5 && cl.arg[1] == duration as u64, "C10 the window timer is armed once, with the time the caller computed");
            // THE obligation for C07: the wait ends only because the window timer fired (select saw it win, or the
            // reception failed and the code awaited the timer) -- never because a frame arrived that was then rejected
            assert!(cl.timer_fired || cl.rx_erred, "C07 a rejected RXC frame does not end the wait for the receive window: between_windows returns only when the window timer has fired");
            let accepted_any = (0..4).any(|k| k < cl.rxc_n && unsafe { RESP[k] } != 0);
            assert!(resp.is_some() == accepted_any, "C07 rejected RXC frames produce no response; an accepted one is reported");
            // nothing but setup_rx / at / rx_continuous was asked of radio and timer
            let mut i = 2; while i < LOGN { if i < cl.n { assert!(cl.kind[i] == 7, "C07 the RXC wait issues no radio command besides listening (same programme with or without stray frames)"); } i += 1; }
        }
        Err(_) => { assert!(cl.faults, "no radio fault, no error (the MAC contract-stub of a joined device does not fail)"); }
    }
    assert!(ml.rx2_complete == 0 && ml.send == 0, "C06 the RXC wait neither retires nor consumes an uplink counter");
    assert!(d.mac.get_session().map(|s| s.fcnt_up) == old_fcnt, "C06 FCntUp untouched by the RXC wait (MAC stubbed: front-end itself does not write it)");
    kani::cover!(r.is_ok() && cl.rxc_n >= 2, "verif-maybe: two RXC frames then timer");
    kani::cover!(r.is_ok() && cl.rxc_n == 1 && unsafe { RESP[0] } == 0, "verif-maybe: one rejected RXC frame then timer");
    kani::cover!(r.is_ok() && cl.rx_erred, "verif-maybe: reception error, timer awaited");
    kani::cover!(r.is_ok() && cl.rxc_n == 0 && cl.timer_fired, "verif-maybe: quiet wait");
}
// @verif props=C07,C10,C06,C18,C04 obligation=async_device::Device::between_windows.contract[class C] label=bounded(3 RXC frames per wait) tier=quick bound="de-async'd text (Y1) with select as a contract-stub (Y2); up to 3 receptions (frame or error) complete before the window timer in one wait; radio faults at any call; MAC contract-stubbed"
#[kani::proof]
#[kani::stub(crate::mac::Mac::send, stub_mac_send)]
#[kani::stub(crate::mac::Mac::join_otaa, stub_mac_join)]
#[kani::stub(crate::mac::Mac::handle_rx, stub_mac_handle_rx)]
#[kani::stub(crate::mac::Mac::handle_rxc, stub_mac_handle_rxc)]
#[kani::stub(crate::mac::Mac::rx2_complete, stub_mac_rx2_complete)]
#[kani::unwind(66)]
fn c07_async_between_windows_class_c() { between_windows_contract(true) }
// @verif props=C10,C04 obligation=async_device::Device::between_windows.contract[class C build, class A device] label=proved-complete tier=quick bound="de-async'd text (Y1)"
#[kani::proof]
#[kani::stub(crate::mac::Mac::send, stub_mac_send)]
#[kani::stub(crate::mac::Mac::join_otaa, stub_mac_join)]
#[kani::stub(crate::mac::Mac::handle_rx, stub_mac_handle_rx)]
#[kani::stub(crate::mac::Mac::handle_rxc, stub_mac_handle_rxc)]
#[kani::stub(crate::mac::Mac::rx2_complete, stub_mac_rx2_complete)]
#[kani::unwind(66)]
fn c10_async_between_windows_class_a() { between_windows_contract(false) }

