// Session::handle_downlink_macs driven by SHAPE (C08 reference semantics, C04 panic-freedom)
// A shape fixes the sequence of command identifiers; every payload byte, the SNR and the MAC state are symbolic.
// @inject file=lorawan-device/src/mac/session.rs mod=verif_macs
// @job pkg=lorawan-device zflags=function-contracts,stubbing
// @requires common_tape dev_uplink dev_region dev_session
use super::*;
use crate::verif_tape as tape;
use crate::mac::uplink::verif_uplink::*;
use crate::region::verif_region::*;
use crate::mac::session::verif_session::{any_mac_configuration, any_session_with};

// ---- recording contract-stubs for the two plan-changing region leaves (their contracts: dev_region_dyn.rs)
pub(crate) struct LeafGhost { pub nc_calls: u8, pub nc_index: u8, pub nc_freq: u32, pub nc_dr: Option<u8>, pub dl_calls: u8, pub dl_index: u8, pub dl_freq: u32, pub acks: (bool, bool) }
pub(crate) static mut LG: LeafGhost = LeafGhost { nc_calls: 0, nc_index: 0, nc_freq: 0, nc_dr: None, dl_calls: 0, dl_index: 0, dl_freq: 0, acks: (false, false) };
pub(crate) fn stub_handle_new_channel(_r: &mut region::Configuration, index: u8, freq: u32, dr: Option<lorawan::types::DataRateRange>) -> (bool, bool) {
    unsafe { LG.nc_calls = LG.nc_calls.wrapping_add(1); LG.nc_index = index; LG.nc_freq = freq; LG.nc_dr = dr.map(|d| d.raw_value()); LG.acks }
}
pub(crate) fn stub_channel_dl_update(_r: &mut region::Configuration, index: u8, freq: u32) -> (bool, bool) {
    unsafe { LG.dl_calls = LG.dl_calls.wrapping_add(1); LG.dl_index = index; LG.dl_freq = freq; LG.acks }
}

fn freq24(b: &[u8]) -> u32 { (b[0] as u32 | (b[1] as u32) << 8 | (b[2] as u32) << 16) * 100 }

/// pre-state shared by all shapes: region (concrete), any wf MAC configuration, a session whose queue holds
/// `queued` (concrete) arbitrary bytes, and any current channel mask that passed validation
struct Pre { region: region::Configuration, cfg: crate::mac::Configuration, s: Session }
fn pre(fixed: bool, queued: usize) -> Pre {
    let mut region = region::Configuration::new(if fixed { region::Region::US915 } else { region::Region::EU868 });
    let cfg = any_mac_configuration(&region);
    // wf_conf: the configured uplink data rate is an UPLINK data rate of the region (US915: DR0..DR4)
    kani::assume(!fixed || (cfg.data_rate as u8) <= 4);
    let m: [u8; 9] = tape::arr();
    let mask = lorawan::types::ChannelMask::<9>::from(m);
    kani::assume(region.channel_mask_validate(&mask, Some(cfg.data_rate)));
    region.channel_mask_set(mask);
    Pre { region, cfg, s: any_session_with(any_uplink_len(queued)) }
}
fn answers<'a>(s: &'a Session, queued: usize) -> &'a [u8] { &uplink_pending(&s.uplink)[queued..] }

// ================================================================================================ LinkADRReq
/// reference semantics of ONE LinkADRReq block on a dynamic plan whose defined channels are 0,1,2 (fresh EU868)
/// returns (status byte, accepted, new mask banks 0/1)
fn spec_linkadr_eu868(region: &region::Configuration, cfg: &crate::mac::Configuration, cur: &lorawan::types::ChannelMask<9>, reqs: &[[u8; 4]]) -> (u8, bool, [u8; 9], u8, Option<u8>) {
    let mut work = [0u8; 9];
    let mut i = 0;
    while i < 9 { work[i] = cur.get_index(i); i += 1; }
    let mut rfu = false;
    let mut k = 0;
    while k < reqs.len() {
        let ctl = (reqs[k][3] >> 4) & 7;
        if ctl == 0 { work[0] = reqs[k][1]; work[1] = reqs[k][2]; }
        else if ctl == 6 { let mut b = 0; while b < 8 { work[b] = 0xFF; b += 1; } }
        else { rfu = true; }                      // RP002 EU868: ChMaskCntl 1..5, 7 are RFU
        k += 1;
    }
    let last = reqs[reqs.len() - 1];
    let drf = last[0] >> 4;
    let pwf = last[0] & 0x0f;
    let dr = if drf == 15 { Some(cfg.data_rate as u8) } else if dr_defined(region, drf) { Some(drf) } else { None };
    let pw: Option<Option<u8>> = if pwf == 15 { Some(cfg.tx_power) } else if pwf <= 7 { Some(Some(16 - 2 * pwf)) } else { None };
    let cm_ok = !rfu && (work[0] & 0x07) != 0;     // some enabled channel among the defined ones (0,1,2)
    let ok = cm_ok && dr.is_some() && pw.is_some();
    let status = (cm_ok as u8) | ((dr.is_some() as u8) << 1) | ((pw.is_some() as u8) << 2);
    (status, ok, work, dr.unwrap_or(0), pw.unwrap_or(None))
}

fn linkadr_block_eu868<const N: usize>() {
    tape::init();
    let Pre { mut region, mut cfg, mut s } = pre(false, 0);
    let old_cfg = cfg;
    let cur = region.channel_mask_get();
    let mut reqs = [[0u8; 4]; N];
    let mut stream = [0u8; 15];
    let mut k = 0;
    while k < N {
        reqs[k] = tape::arr();
        stream[5 * k] = 0x03;
        stream[5 * k + 1] = reqs[k][0]; stream[5 * k + 2] = reqs[k][1]; stream[5 * k + 3] = reqs[k][2]; stream[5 * k + 4] = reqs[k][3];
        k += 1;
    }
    let snr = tape::i8();
    s.handle_downlink_macs(&mut cfg, &mut region, parse_downlink_mac_commands(&stream[..5 * N]), snr);
    let (status, ok, work, dr, pw) = spec_linkadr_eu868(&region, &old_cfg, &cur, &reqs);
    let a = answers(&s, 0);
    assert!(a.len() == 2 * N, "C08 one LinkADRAns per LinkADRReq of the block");
    let mut j = 0;
    while j < N { assert!(a[2 * j] == 0x03 && a[2 * j + 1] == status, "C08 identical LinkADRAns copies: PowerACK|DataRateACK|ChannelMaskACK per the regional rules"); j += 1; }
    let now = region.channel_mask_get();
    if ok {
        assert!(cfg.data_rate as u8 == dr && cfg.tx_power == pw, "C08 accepted block: data rate and TX power of the last request in force");
        let mut b = 0; while b < 9 { assert!(now.get_index(b) == work[b], "C08 accepted block: channel mask = block folded over the current mask"); b += 1; }
    } else {
        assert!(cfg.data_rate == old_cfg.data_rate && cfg.tx_power == old_cfg.tx_power && now == cur, "C08 a LinkADRReq block answered with any NAK changes nothing");
    }
    assert!(cfg.rx1_delay == old_cfg.rx1_delay && cfg.rx1_dr_offset == old_cfg.rx1_dr_offset && cfg.rx2_data_rate == old_cfg.rx2_data_rate && cfg.rx2_frequency == old_cfg.rx2_frequency && cfg.adr_enabled == old_cfg.adr_enabled, "LinkADRReq touches nothing else");
    kani::cover!(ok, "verif-reached: block accepted");
    kani::cover!(status == 0b110, "verif-reached: mask refused");
    kani::cover!(status == 0b011, "verif-reached: power refused");
}
// @verif props=C08,C04 obligation=Session::handle_downlink_macs.spec[LinkADRReq,EU868] label=proved-complete tier=quick bound="shape: one LinkADRReq; all field values, current mask, MAC state symbolic"
#[kani::proof]
#[kani::unwind(17)]
fn c08_macs_linkadr_1_eu868() { linkadr_block_eu868::<1>() }
// @verif props=C08,C04 obligation=Session::handle_downlink_macs.spec[LinkADRReq x2,EU868] label=proved-complete tier=quick bound="shape: block of two contiguous LinkADRReq"
#[kani::proof]
#[kani::unwind(17)]
fn c08_macs_linkadr_2_eu868() { linkadr_block_eu868::<2>() }
// @verif props=C08,C04 obligation=Session::handle_downlink_macs.spec[LinkADRReq x3,EU868] label=proved-complete tier=thorough bound="shape: block of three contiguous LinkADRReq"
#[kani::proof]
#[kani::unwind(17)]
fn c08_macs_linkadr_3_eu868() { linkadr_block_eu868::<3>() }

// ================================================================================================ RXParamSetupReq / RXTimingSetupReq / DevStatusReq
fn rxparam_etc(fixed: bool) {
    tape::init();
    let Pre { mut region, mut cfg, mut s } = pre(fixed, 0);
    let old_cfg = cfg;
    let cur = region.channel_mask_get();
    let p: [u8; 4] = tape::arr();       // DLSettings | Frequency
    let t = tape::u8();                 // RXTimingSetupReq settings
    let snr = tape::i8();
    let stream = [0x05, p[0], p[1], p[2], p[3], 0x08, t, 0x06];
    s.handle_downlink_macs(&mut cfg, &mut region, parse_downlink_mac_commands(&stream), snr);
    let a = answers(&s, 0);
    // RXParamSetupReq: all-or-nothing over {frequency, RX2 data rate, RX1 offset}
    let off = (p[0] >> 4) & 7;
    let rx2 = p[0] & 0x0f;
    let f = freq24(&p[1..4]);
    let f_ok = region.frequency_valid(f);
    let off_ok = region.rx1_dr_offset_validate(off).is_some();
    let rx2_ok = rx2 == 15 || dr_defined(&region, rx2);
    assert!(a.len() == 2 + 1 + 3, "C08 one answer per request, in request order");
    assert!(a[0] == 0x05 && a[1] == (f_ok as u8) | ((rx2_ok as u8) << 1) | ((off_ok as u8) << 2), "C08 RXParamSetupAns: RX1DRoffsetACK|RX2DataRateACK|ChannelACK");
    if f_ok && off_ok && rx2_ok {
        assert!(cfg.rx2_frequency == Some(f) && cfg.rx1_dr_offset == off && cfg.rx2_data_rate == (if rx2 == 15 { old_cfg.rx2_data_rate } else { Some(DR::from(rx2)) }), "C08 accepted RXParamSetupReq in force exactly as commanded");
    } else {
        assert!(cfg.rx2_frequency == old_cfg.rx2_frequency && cfg.rx1_dr_offset == old_cfg.rx1_dr_offset && cfg.rx2_data_rate == old_cfg.rx2_data_rate, "C08 a RXParamSetupReq answered with any NAK changes nothing");
    }
    // RXTimingSetupReq
    let del = t & 0x0f;
    assert!(a[2] == 0x08, "C08 RXTimingSetupAns");
    assert!(cfg.rx1_delay == (if del >= 2 { del as u32 * 1000 } else { 1000 }), "C08 RX1 delay = Del seconds (0 means 1)");
    // DevStatusReq
    assert!(a[3] == 0x06 && a[4] == 255, "C08 DevStatusAns, battery 255 (cannot measure)");
    assert!(a[5] == (if snr >= -32 && snr <= 31 { (snr as u8) & 0x3f } else { 0 }), "DevStatusAns margin = SNR as 6-bit signed (0 when not representable)");
    assert!(cfg.data_rate == old_cfg.data_rate && cfg.tx_power == old_cfg.tx_power && region.channel_mask_get() == cur && cfg.adr_enabled == old_cfg.adr_enabled, "these requests touch nothing else");
    kani::cover!(f_ok && off_ok && rx2_ok, "verif-reached: RXParamSetup accepted");
    kani::cover!(!f_ok, "verif-reached: frequency refused");
}
// @verif props=C08,C04 obligation=Session::handle_downlink_macs.spec[RXParamSetupReq;RXTimingSetupReq;DevStatusReq,EU868] label=proved-complete tier=quick bound="shape: these three requests in this order; all field values symbolic"
#[kani::proof]
#[kani::unwind(17)]
fn c08_macs_rxparam_timing_status_eu868() { rxparam_etc(false) }
// @verif props=C08,C04 obligation=Session::handle_downlink_macs.spec[RXParamSetupReq;RXTimingSetupReq;DevStatusReq,US915] label=proved-complete tier=quick bound="shape: these three requests in this order; all field values symbolic"
#[kani::proof]
#[kani::unwind(74)]
fn c08_macs_rxparam_timing_status_us915() { rxparam_etc(true) }

// ================================================================================================ NewChannelReq / DlChannelReq
fn newchannel_dlchannel(fixed: bool) {
    tape::init();
    let Pre { mut region, mut cfg, mut s } = pre(fixed, 0);
    let old_cfg = cfg;
    let n: [u8; 5] = tape::arr();       // ChIndex | Freq | DrRange
    let d: [u8; 4] = tape::arr();       // ChIndex | Freq
    let acks = (tape::boolean(), tape::boolean());
    unsafe { LG.acks = acks; }
    let stream = [0x07, n[0], n[1], n[2], n[3], n[4], 0x0A, d[0], d[1], d[2], d[3]];
    s.handle_downlink_macs(&mut cfg, &mut region, parse_downlink_mac_commands(&stream), tape::i8());
    let a = answers(&s, 0);
    let g = unsafe { &*(&raw const LG) };
    if fixed {
        assert!(a.is_empty() && g.nc_calls == 0 && g.dl_calls == 0, "C08 fixed channel plans ignore NewChannelReq / DlChannelReq silently");
    } else {
        assert!(g.nc_calls == 1 && g.nc_index == n[0] && g.nc_freq == freq24(&n[1..4]), "C08 NewChannelReq handed to the channel plan as commanded");
        let range_ok = (n[4] >> 4) >= (n[4] & 0x0f);
        assert!(g.nc_dr == (if range_ok { Some(n[4]) } else { None }), "C08 DrRange with Max < Min never reaches the plan as a range");
        assert!(g.dl_calls == 1 && g.dl_index == d[0] && g.dl_freq == freq24(&d[1..4]), "C08 DlChannelReq handed to the channel plan as commanded");
        assert!(a.len() == 4 && a[0] == 0x07 && a[1] == (acks.0 as u8) | ((acks.1 as u8) << 1), "C08 NewChannelAns: DataRateRangeOK|ChannelFrequencyOK as the plan decided");
        assert!(a[2] == 0x0A && a[3] == (acks.0 as u8) | ((acks.1 as u8) << 1), "C08 DlChannelAns: UplinkFrequencyExists|ChannelFrequencyOK as the plan decided");
    }
    assert!(cfg == old_cfg, "channel requests do not touch the MAC configuration");
    kani::cover!(true, "verif-reached: end");
}
// @verif props=C08,C04 obligation=Session::handle_downlink_macs.spec[NewChannelReq;DlChannelReq,EU868] label=proved-complete tier=quick bound="shape: these two requests; all field values symbolic; plan leaves contract-stubbed (their contracts: dev_region_dyn)"
#[kani::proof]
#[kani::stub(region::Configuration::handle_new_channel, stub_handle_new_channel)]
#[kani::stub(region::Configuration::channel_dl_update, stub_channel_dl_update)]
#[kani::unwind(17)]
fn c08_macs_newchannel_dlchannel_eu868() { newchannel_dlchannel(false) }
// @verif props=C08,C04 obligation=Session::handle_downlink_macs.spec[NewChannelReq;DlChannelReq,US915] label=proved-complete tier=quick bound="shape: these two requests"
#[kani::proof]
#[kani::stub(region::Configuration::handle_new_channel, stub_handle_new_channel)]
#[kani::stub(region::Configuration::channel_dl_update, stub_channel_dl_update)]
#[kani::unwind(74)]
fn c08_macs_newchannel_dlchannel_us915() { newchannel_dlchannel(true) }

// ================================================================================================ truncation at 15 bytes: only a suffix is dropped
fn truncation() {
    tape::init();
    // 13 bytes already queued: DevStatusAns (3 bytes) does not fit, RXTimingSetupAns (1 byte) would
    let Pre { mut region, mut cfg, mut s } = pre(false, 13);
    let t = tape::u8();
    let stream = [0x06, 0x08, t];
    s.handle_downlink_macs(&mut cfg, &mut region, parse_downlink_mac_commands(&stream), tape::i8());
    let a = answers(&s, 13);
    // whole commands only, and once an answer had to be dropped every later one is dropped too
    assert!(a.is_empty(), "C08 answers are dropped only as a suffix: nothing may follow a dropped answer");
    kani::cover!(true, "verif-reached: end");
}
// witness of KF-C08-1 (open finding), expected to FAIL while it is open
// @verif props=C08 obligation=Session::handle_downlink_macs.spec[truncation:DevStatusReq;RXTimingSetupReq,13 queued] label=proved-complete tier=quick finding=KF-C08-1 bound="shape: DevStatusReq then RXTimingSetupReq with 13 bytes already queued"
#[kani::proof]
#[kani::unwind(17)]
fn c08_macs_truncation_suffix_only() { truncation() }

// ================================================================================================ two blocks in one downlink start from the device's current mask
fn two_blocks() {
    tape::init();
    let Pre { mut region, mut cfg, mut s } = pre(false, 0);
    let old_cfg = cfg;
    let cur = region.channel_mask_get();
    let r1: [u8; 4] = tape::arr();
    let r2: [u8; 4] = tape::arr();
    let stream = [0x03, r1[0], r1[1], r1[2], r1[3], 0x06, 0x03, r2[0], r2[1], r2[2], r2[3]];
    s.handle_downlink_macs(&mut cfg, &mut region, parse_downlink_mac_commands(&stream), tape::i8());
    let (st1, ok1, work1, dr1, pw1) = spec_linkadr_eu868(&region, &old_cfg, &cur, &[r1]);
    let mut mid_cfg = old_cfg;
    let mut mid_mask = cur.clone();
    if ok1 { mid_cfg.data_rate = DR::from(dr1); mid_cfg.tx_power = pw1; mid_mask = lorawan::types::ChannelMask::<9>::from(work1); }
    let (st2, ok2, work2, dr2, pw2) = spec_linkadr_eu868(&region, &mid_cfg, &mid_mask, &[r2]);
    let a = answers(&s, 0);
    assert!(a.len() == 7 && a[0] == 0x03 && a[1] == st1 && a[2] == 0x06 && a[5] == 0x03 && a[6] == st2, "C08 second block judged against the mask in force after the first block");
    let now = region.channel_mask_get();
    let fin_mask = if ok2 { lorawan::types::ChannelMask::<9>::from(work2) } else { mid_mask };
    assert!(now == fin_mask, "C08 final mask = second block folded over the device's then-current mask");
    assert!(cfg.data_rate as u8 == (if ok2 { dr2 } else { mid_cfg.data_rate as u8 }) && cfg.tx_power == (if ok2 { pw2 } else { mid_cfg.tx_power }), "C08 final data rate / power");
    kani::cover!(!ok1 && ok2, "verif-reached: first refused, second accepted");
    kani::cover!(ok1 && !ok2, "verif-reached: first accepted, second refused");
}
// @verif props=C08 obligation=Session::handle_downlink_macs.spec[LinkADRReq;DevStatusReq;LinkADRReq,EU868] label=proved-complete tier=quick bound="shape: two LinkADRReq blocks separated by a DevStatusReq"
#[kani::proof]
#[kani::unwind(17)]
fn c08_macs_two_blocks_eu868() { two_blocks() }

// ================================================================================================ LinkADRReq on a fixed plan (US915)
/// KF-C08-2 (open finding): US915/AU915 accept the downlink-only data rates DR8..DR13 as the uplink data rate
pub(crate) fn kf_downlink_only_dr(drf: u8) -> bool { drf >= 8 && drf <= 13 }
fn linkadr_us915(witness: bool) {
    tape::init();
    let Pre { mut region, mut cfg, mut s } = pre(true, 0);
    let old_cfg = cfg;
    let cur = region.channel_mask_get();
    let r: [u8; 4] = tape::arr();
    kani::assume(kf_downlink_only_dr(r[0] >> 4) == witness);
    let stream = [0x03, r[0], r[1], r[2], r[3]];
    s.handle_downlink_macs(&mut cfg, &mut region, parse_downlink_mac_commands(&stream), tape::i8());
    // RP002 US915: uplink data rates DR0..DR4 (DR5/6 LR-FHSS not implemented here), TXPower 0..14, ChMaskCntl 0..7
    let drf = r[0] >> 4;
    let pwf = r[0] & 0x0f;
    let dr = if drf == 15 { Some(old_cfg.data_rate as u8) } else if drf <= 4 { Some(drf) } else { None };
    let pw_ok = pwf == 15 || pwf <= 14;
    let a = answers(&s, 0);
    assert!(a.len() == 2 && a[0] == 0x03, "C08 one LinkADRAns");
    assert!((a[1] >> 1) & 1 == dr.is_some() as u8, "C08 DataRateACK exactly for uplink data rates the region defines");
    assert!((a[1] >> 2) & 1 == pw_ok as u8, "C08 PowerACK exactly for TXPower indices the region defines");
    let ctl = (r[3] >> 4) & 7;
    let mut work = [0u8; 9];
    let mut i = 0;
    while i < 9 { work[i] = cur.get_index(i); i += 1; }
    match ctl {
        0 | 1 | 2 | 3 => { work[2 * ctl as usize] = r[1]; work[2 * ctl as usize + 1] = r[2]; }
        4 => { work[8] = r[1]; }
        5 => { let mut b = 0; while b < 8 { work[b] = if (r[1] >> b) & 1 == 1 { 0xFF } else { 0 }; b += 1; } work[8] = r[1]; }
        6 => { let mut b = 0; while b < 8 { work[b] = 0xFF; b += 1; } work[8] = r[1]; }
        _ => { let mut b = 0; while b < 8 { work[b] = 0x00; b += 1; } work[8] = r[1]; }
    }
    let accepted = a[1] == 0b111;
    let now = region.channel_mask_get();
    if accepted {
        let mut b = 0; while b < 9 { assert!(now.get_index(b) == work[b], "C08 accepted: mask per the RP002 ChMaskCntl table"); b += 1; }
        assert!(Some(cfg.data_rate as u8) == dr, "C08 accepted: data rate in force");
        // what the transmit path needs: a channel of the right bandwidth is enabled
        let wide = cfg.data_rate as u8 == 4;
        let mut ok = false; let mut c = 0;
        while c < 72 { if (work[c >> 3] >> (c & 7)) & 1 == 1 && ((c >= 64) == wide) { ok = true; } c += 1; }
        assert!(ok, "C09 an accepted LinkADRReq leaves a usable channel for the commanded data rate");
    } else {
        assert!(now == cur && cfg == old_cfg, "C08 a LinkADRReq answered with any NAK changes nothing");
    }
    kani::cover!(accepted, "verif-reached: accepted");
    kani::cover!(witness || !accepted, "verif-reached: refused");
}
// @verif props=C08,C04,C09 obligation=Session::handle_downlink_macs.spec[LinkADRReq,US915] label=proved-complete tier=quick bound="shape: one LinkADRReq on US915; all field values symbolic"
#[kani::proof]
#[kani::unwind(74)]
fn c08_macs_linkadr_1_us915() { linkadr_us915(false) }
// witness of KF-C08-2 (open finding), expected to FAIL while it is open
// @verif props=C08 obligation=Session::handle_downlink_macs.spec[LinkADRReq,US915,KF-C08-2] label=proved-complete tier=quick finding=KF-C08-2
#[kani::proof]
#[kani::unwind(74)]
fn c08_macs_linkadr_us915_kf2_witness() { linkadr_us915(true) }
