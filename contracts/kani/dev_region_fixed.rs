// Contracts + harnesses for lorawan-device/src/region/fixed_channel_plans/{mod.rs,join_channels.rs} (US915, AU915)
// (C04 panic-freedom / invariant, C08 ChMaskCntl table, C09 channel selection + frequency tables, C10 RX1 pairing)
// @inject file=lorawan-device/src/region/fixed_channel_plans/join_channels.rs mod=verif_fixed
// @job pkg=lorawan-device zflags=function-contracts,stubbing
// @requires common_tape dev_region
use super::*;
use super::super::*;
use crate::verif_tape as tape;
use crate::region::verif_region::TapeRng;

pub(crate) fn bit(m: &ChannelMask<9>, i: usize) -> bool { (m.get_index(i >> 3) >> (i & 7)) & 1 == 1 }
/// the transmit path can find a channel for data rate `dr`: a 500 kHz rate needs one of 64..71, any other one of 0..63
pub(crate) fn usable_for<F: FixedChannelRegion>(m: &ChannelMask<9>, dr: u8) -> bool {
    let wide = match &F::datarates()[dr as usize] { Some(d) => d.bandwidth == Bandwidth::_500KHz, None => false };
    let mut ok = false;
    let mut i = 0;
    while i < 72 { if bit(m, i) && ((i >= 64) == wide) { ok = true; } i += 1; }
    ok
}
pub(crate) fn any_mask() -> ChannelMask<9> { ChannelMask::from(tape::arr::<9>()) }

// ------------------------------------------------------------------ frequency tables (C09)
fn freq_tables<F: FixedChannelRegion>(p: &FixedChannelPlan<F>, up125_base: u32, up500_base: u32, dn_base: u32) {
    let mut i = 0;
    while i < 72 {
        let f = F::uplink_channels()[i];
        let want = if i < 64 { up125_base + 200_000 * i as u32 } else { up500_base + 1_600_000 * (i as u32 - 64) };
        assert!(f == want, "C09 uplink channel on the regional grid");
        assert!((p.frequency_valid)(f), "C09 uplink channel inside the band");
        i += 1;
    }
    let mut k = 0;
    while k < 8 {
        assert!(F::downlink_channels()[k] == dn_base + 600_000 * k as u32 && (p.frequency_valid)(F::downlink_channels()[k]), "C10 downlink channel grid 923.3 + 0.6 k MHz");
        k += 1;
    }
    kani::cover!(true, "verif-reached: tables checked");
}
// @verif props=C09,C10 obligation=US915.frequency_tables label=proved-complete tier=quick
#[kani::proof]
#[kani::unwind(74)]
fn c09_us915_frequency_tables() { freq_tables(&US915::default().0, 902_300_000, 903_000_000, 923_300_000) }
// @verif props=C09,C10 obligation=AU915.frequency_tables label=proved-complete tier=quick
#[kani::proof]
#[kani::unwind(74)]
fn c09_au915_frequency_tables() { freq_tables(&AU915::default().0, 915_200_000, 915_900_000, 923_300_000) }

// ------------------------------------------------------------------ get_datarate total
fn get_datarate_total<F: FixedChannelRegion>(p: &FixedChannelPlan<F>) {
    let dr = tape::u8();
    let r = p.get_datarate(dr);
    assert!(r.is_some() == (dr < NUM_DATARATES && F::datarates()[(dr % NUM_DATARATES) as usize].is_some()), "get_datarate(dr) is Some exactly for region-defined data rates");
    kani::cover!(dr == 15, "verif-reached: DR15");
}
// @verif props=C04,C11 obligation=FixedChannelPlan::get_datarate.total[US915] label=proved-complete tier=quick
#[kani::proof]
fn c04_fix_get_datarate_us915() { tape::init(); get_datarate_total(&US915::default().0) }
// @verif props=C04,C11 obligation=FixedChannelPlan::get_datarate.total[AU915] label=proved-complete tier=quick
#[kani::proof]
fn c04_fix_get_datarate_au915() { tape::init(); get_datarate_total(&AU915::default().0) }

// ------------------------------------------------------------------ channel_mask_update: RP002 US915/AU915 ChMaskCntl table
fn channel_mask_update_contract<F: FixedChannelRegion>(p: &FixedChannelPlan<F>) {
    let start: [u8; 9] = tape::arr();
    let mut m = ChannelMask::<9>::from(start);
    let ctl = tape::u8();
    let b0 = tape::u8();
    let b1 = tape::u8();
    let r = p.channel_mask_update(&mut m, ctl, ChannelMask::<2>::from([b0, b1]));
    let mut want = start;
    let mut valid = true;
    match ctl {
        0 | 1 | 2 | 3 => { want[2 * ctl as usize] = b0; want[2 * ctl as usize + 1] = b1; }   // channels 16 ctl .. 16 ctl + 15
        4 => { want[8] = b0; }                                                              // channels 64..71, high byte RFU
        5 => { let mut i = 0; while i < 8 { want[i] = if (b0 >> i) & 1 == 1 { 0xFF } else { 0 }; i += 1; } want[8] = b0; } // 8 LSB: banks + their 500 kHz channel
        6 => { let mut i = 0; while i < 8 { want[i] = 0xFF; i += 1; } want[8] = b0; }       // all 125 kHz on, ChMask -> 64..71
        7 => { let mut i = 0; while i < 8 { want[i] = 0x00; i += 1; } want[8] = b0; }       // all 125 kHz off, ChMask -> 64..71
        _ => { valid = false; }
    }
    assert!(r.is_some() == valid, "C08 ChMaskCntl 0..7 are defined for fixed plans, nothing else");
    let mut i = 0;
    while i < 9 { assert!(m.get_index(i) == want[i], "C08 working mask == RP002 ChMaskCntl table applied to the previous working mask"); i += 1; }
    kani::cover!(ctl == 4, "verif-reached: ChMaskCntl 4");
    kani::cover!(ctl == 5, "verif-reached: ChMaskCntl 5");
    kani::cover!(ctl == 7, "verif-reached: ChMaskCntl 7");
}
// @verif props=C04,C08 obligation=FixedChannelPlan::channel_mask_update.contract[US915] label=proved-complete tier=quick
#[kani::proof]
#[kani::unwind(10)]
fn c08_fix_channel_mask_update_us915() { tape::init(); channel_mask_update_contract(&US915::default().0) }

// ------------------------------------------------------------------ channel_mask_validate
fn channel_mask_validate_contract<F: FixedChannelRegion>(p: &FixedChannelPlan<F>) {
    let m = any_mask();
    let dr = tape::opt_u8();
    // precondition (discharged at the only call site, Session::handle_downlink_macs): the data rate is the configured
    // one or was validated with get_datarate, hence never DR15
    if let Some(d) = dr { kani::assume(d < NUM_DATARATES); }
    let r = p.channel_mask_validate(&m, dr.map(DR::from));
    // what the transmit path needs afterwards: accepted => usable for that data rate
    if r { assert!(dr.is_some() && usable_for::<F>(&m, dr.unwrap()), "C09 an accepted (mask, data rate) pair leaves a usable channel of the right bandwidth"); }
    kani::cover!(r, "verif-reached: accepted");
    kani::cover!(!r, "verif-reached: refused");
}
// @verif props=C04,C08,C09 obligation=FixedChannelPlan::channel_mask_validate.contract[US915] label=proved-complete tier=quick
#[kani::proof]
#[kani::unwind(74)]
fn c09_fix_channel_mask_validate_us915() { tape::init(); channel_mask_validate_contract(&US915::default().0) }

// ------------------------------------------------------------------ process_join_accept (CFList type 1)
/// KF-C09-3 (open finding): a type 1 CFList whose mask has no 125 kHz channel enabled
pub(crate) fn kf_cflist_mask_strands(kind: usize, mask: &ChannelMask<9>) -> bool {
    if kind != 2 { return false; }
    let mut any125 = false;
    let mut i = 0;
    while i < 64 { if bit(mask, i) { any125 = true; } i += 1; }
    !any125
}
fn process_join_accept_contract<F: FixedChannelRegion>(mut p: FixedChannelPlan<F>, witness: bool) {
    p.channel_mask = any_mask();
    let old_mask = p.channel_mask.clone();
    let kind = tape::below(3);
    let mask = any_mask();
    kani::assume(kf_cflist_mask_strands(kind, &mask) == witness);
    let freqs = [lorawan::parser::Frequency::from_wire_bytes(tape::arr()); 5];
    let cfl = match kind { 0 => None, 1 => Some(CfList::DynamicChannel(freqs)), _ => Some(CfList::FixedChannel(mask.clone())) };
    p.process_join_accept(cfl.as_ref());
    if kind == 2 {
        assert!(p.channel_mask == mask, "C11 a type 1 CFList installs its channel mask");
        // the first uplinks after a join use DR0 (125 kHz): the installed mask must allow that
        assert!(usable_for::<F>(&p.channel_mask, 0), "C04/C09 a CFList never leaves the device without a usable 125 kHz channel");
    } else {
        assert!(p.channel_mask == old_mask, "C11 no CFList / a CFList of another type changes nothing on a fixed plan");
    }
    kani::cover!(kind == 2, "verif-reached: type 1 CFList");
}
// @verif props=C04,C09,C11 obligation=FixedChannelPlan::process_join_accept.contract[US915] label=proved-complete tier=quick
#[kani::proof]
#[kani::unwind(74)]
fn c11_fix_process_join_accept_us915() { tape::init(); process_join_accept_contract(US915::default().0, false) }
// witness of KF-C09-3, expected to FAIL while the finding is open
// @verif props=C04,C09,C11 obligation=FixedChannelPlan::process_join_accept.contract[US915,KF-C09-3] label=proved-complete tier=quick finding=KF-C09-3
#[kani::proof]
#[kani::unwind(74)]
fn c09_fix_process_join_accept_kf3_witness() { tape::init(); process_join_accept_contract(US915::default().0, true) }

// ------------------------------------------------------------------ select_tx_channel, data frames, no join bias left
fn select_data_contract<F: FixedChannelRegion>(mut p: FixedChannelPlan<F>) {
    p.channel_mask = any_mask();
    let dr = tape::u8();
    kani::assume(dr < NUM_DATARATES && F::datarates()[dr as usize].is_some());
    kani::assume(usable_for::<F>(&p.channel_mask, dr));            // wf_plan_fix(plan, dr)
    let wide = F::datarates()[dr as usize].as_ref().unwrap().bandwidth == Bandwidth::_500KHz;
    // accepting draw from the invariant
    let w = tape::below(72);
    kani::assume(bit(&p.channel_mask, w) && ((w >= 64) == wide));
    let mut rng = TapeRng { draws: 0, free: 2, accept: (w % 64) as u32 };
    let tx = p.select_tx_channel(&mut rng, DR::from(dr), &Frame::Data);
    assert!(tx.dr as u8 == dr, "C09 data frames use the configured data rate");
    let mut found = false;
    let mut i = 0;
    while i < 72 {
        if bit(&p.channel_mask, i) && ((i >= 64) == wide) && F::uplink_channels()[i] == tx.frequency && F::downlink_channels()[i % 8] == tx.rx1_frequency { found = true; }
        i += 1;
    }
    assert!(found, "C09 enabled channel whose bandwidth matches the data rate; C10 RX1 on downlink channel (uplink channel mod 8)");
    kani::cover!(wide, "verif-reached: 500 kHz");
    kani::cover!(!wide, "verif-reached: 125 kHz");
}
// @verif props=C04,C09,C10 obligation=FixedChannelPlan::select_tx_channel.contract[Data,US915] label=proved-complete tier=quick bound="random streams = 2 arbitrary draws then an accepting draw; join bias already cleared"
#[kani::proof]
#[kani::unwind(74)]
fn c09_fix_select_data_us915() { tape::init(); select_data_contract(US915::default().0) }
// @verif props=C04,C09,C10 obligation=FixedChannelPlan::select_tx_channel.contract[Data,AU915] label=proved-complete tier=thorough bound="random streams = 2 arbitrary draws then an accepting draw; join bias already cleared"
#[kani::proof]
#[kani::unwind(74)]
fn c09_fix_select_data_au915() { tape::init(); select_data_contract(AU915::default().0) }

// ------------------------------------------------------------------ data frames versus the join bias
/// any JoinChannels value the public API can leave behind: the bias (subband, max_retries) is whatever the user set
/// or cleared, num_retries counts join attempts since the last reset, previous_channel is the last biased join
/// channel (always one of the 64 narrow channels; 0 before the first biased attempt).
fn any_join_state<F: FixedChannelRegion>(p: &mut FixedChannelPlan<F>) {
    if tape::boolean() {
        let sb = [Subband::_1, Subband::_2, Subband::_3, Subband::_4, Subband::_5, Subband::_6, Subband::_7, Subband::_8][tape::below(8)];
        p.join_channels.set_join_bias(sb, tape::u8() as usize);
    }
    p.join_channels.num_retries = tape::u8() as usize;
    p.join_channels.previous_channel = tape::below(64) as u8;
}
fn data_tx_obeys_mask<F: FixedChannelRegion>(p: &FixedChannelPlan<F>, tx: &TxChannel, dr: u8, what_dr: bool) {
    let wide = F::datarates()[tx.dr as usize].as_ref().unwrap().bandwidth == Bandwidth::_500KHz;
    if what_dr { assert!(tx.dr as u8 == dr, "C09 data frames use the configured data rate once the mask in force was commanded by the network"); }
    let mut found = false;
    let mut i = 0;
    while i < 72 {
        if bit(&p.channel_mask, i) && ((i >= 64) == wide) && F::uplink_channels()[i] == tx.frequency && F::downlink_channels()[i % 8] == tx.rx1_frequency { found = true; }
        i += 1;
    }
    assert!(found, "C09 data frame on a channel enabled in the mask in force whose bandwidth matches the data rate used");
}
/// LinkADRReq accepted (Session calls channel_mask_set with a validated mask) in ANY join-bias state, then a data uplink
fn mask_set_then_data<F: FixedChannelRegion>(mut p: FixedChannelPlan<F>) {
    any_join_state(&mut p);
    p.channel_mask = any_mask();
    let m = any_mask();
    let dr = tape::u8();
    kani::assume(dr < NUM_DATARATES && F::datarates()[dr as usize].is_some());
    kani::assume(usable_for::<F>(&m, dr));            // what channel_mask_validate established before channel_mask_set is called
    let wide = F::datarates()[dr as usize].as_ref().unwrap().bandwidth == Bandwidth::_500KHz;
    let w = tape::below(72);
    kani::assume(bit(&m, w) && ((w >= 64) == wide));
    p.channel_mask_set(m.clone());
    let mut k = 0;
    while k < 9 { assert!(p.channel_mask.get_index(k) == m.get_index(k), "C08/C09 channel_mask_set installs exactly the validated mask"); k += 1; }
    assert!(!p.join_channels.has_bias_and_not_exhausted(), "C09 channel_mask_set ends the join bias: data frames obey the commanded mask from now on");
    let mut rng = TapeRng { draws: 0, free: 2, accept: (w % 64) as u32 };
    let tx = p.select_tx_channel(&mut rng, DR::from(dr), &Frame::Data);
    data_tx_obeys_mask(&p, &tx, dr, true);
    kani::cover!(wide, "verif-reached: 500 kHz");
    kani::cover!(!wide, "verif-reached: 125 kHz");
}
// @verif props=C08,C09 obligation=FixedChannelPlan::channel_mask_set.then_data[US915] label=proved-complete tier=quick bound="every join-bias state (any subband, any retry counters), random streams = 2 arbitrary draws then an accepting draw"
#[kani::proof]
#[kani::unwind(74)]
fn c09_fix_mask_set_then_data_us915() { tape::init(); mask_set_then_data(US915::default().0) }
// @verif props=C08,C09 obligation=FixedChannelPlan::channel_mask_set.then_data[AU915] label=proved-complete tier=thorough bound="every join-bias state, random streams = 2 arbitrary draws then an accepting draw"
#[kani::proof]
#[kani::unwind(74)]
fn c09_fix_mask_set_then_data_au915() { tape::init(); mask_set_then_data(AU915::default().0) }

/// data uplinks while the join bias still drives the channel choice (no CFList, no LinkADRReq mask since the join).
/// KF-C09-4 selector: the mask in force (left over from an earlier session) disables a channel of the biased
/// subband, or the configured data rate is a 500 kHz one while the first data channel is drawn from the join subband.
pub(crate) fn kf_bias_ignores_mask<F: FixedChannelRegion>(p: &FixedChannelPlan<F>, dr: u8) -> bool {
    let wide = F::datarates()[dr as usize].as_ref().unwrap().bandwidth == Bandwidth::_500KHz;
    let mut all = true;
    let mut i = 0;
    while i < 8 { if p.channel_mask.get_index(i) != 0xff { all = false; } i += 1; }
    !all || (wide && !p.join_channels.has_bias_and_not_exhausted())
}
fn biased_data<F: FixedChannelRegion>(mut p: FixedChannelPlan<F>, witness: bool) {
    any_join_state(&mut p);
    // the bias drives the choice: one of the first two branches of the Data arm
    kani::assume(p.join_channels.has_bias_and_not_exhausted() || { let mut q = p.join_channels.clone(); let mut r = TapeRng { draws: 0, free: 8, accept: 0 }; q.first_data_channel(&mut r).is_some() });
    p.channel_mask = any_mask();
    let dr = tape::u8();
    kani::assume(dr < NUM_DATARATES && F::datarates()[dr as usize].is_some());
    kani::assume(usable_for::<F>(&p.channel_mask, dr));
    kani::assume(kf_bias_ignores_mask(&p, dr) == witness);
    let pending = p.join_channels.has_bias_and_not_exhausted();
    let mut rng = TapeRng { draws: 0, free: 8, accept: 0 };
    let tx = p.select_tx_channel(&mut rng, DR::from(dr), &Frame::Data);
    assert!(rng.draws <= 1, "C09 terminates: one draw");
    // while the bias is pending the code deliberately sends at the join data rate (DR0); that is a defined data rate
    data_tx_obeys_mask(&p, &tx, dr, !pending);
    kani::cover!(pending, "verif-maybe: bias pending");
    kani::cover!(!pending, "verif-maybe: first data channel after a biased join");
}
// @verif props=C09 obligation=FixedChannelPlan::select_tx_channel.contract[Data,US915,bias] label=proved-complete tier=quick bound="every join-bias state in which the bias drives the data channel, every random draw; KF-C09-4 class excluded"
#[kani::proof]
#[kani::unwind(74)]
fn c09_fix_biased_data_us915() { tape::init(); biased_data(US915::default().0, false) }
// @verif props=C09 obligation=FixedChannelPlan::select_tx_channel.contract[Data,US915,bias,KF-C09-4] label=proved-complete tier=quick finding=KF-C09-4
#[kani::proof]
#[kani::unwind(74)]
fn c09_fix_biased_data_kf4_witness() { tape::init(); biased_data(US915::default().0, true) }

// ------------------------------------------------------------------ join channel selection: histories from a fresh device
fn join_history<F: FixedChannelRegion>(mut p: FixedChannelPlan<F>, steps: usize, bias: bool) {
    if bias {
        let sb = [Subband::_1, Subband::_2, Subband::_3, Subband::_4, Subband::_5, Subband::_6, Subband::_7, Subband::_8][tape::below(8)];
        p.join_channels.set_join_bias(sb, 1 + tape::below(2));
    }
    let mut rng = TapeRng { draws: 0, free: 64, accept: 0 };
    let mut n = 0;
    while n < steps {
        let tx = p.select_tx_channel(&mut rng, DR::_0, &Frame::Join);
        // which channel was it?  the frequency table is injective
        let mut ch = 99usize;
        let mut i = 0;
        while i < 72 { if F::uplink_channels()[i] == tx.frequency { ch = i; } i += 1; }
        assert!(ch < 72, "C09 join request on a channel of the plan");
        assert!(tx.dr == (if ch < 64 { DR::_0 } else { DR::_4 }), "C09 join data rate mandated by the channel (125 kHz: DR0, 500 kHz: DR4)");
        assert!(tx.rx1_frequency == F::downlink_channels()[ch % 8], "C10 RX1 of a join follows the join channel actually used");
        n += 1;
    }
    kani::cover!(true, "verif-reached: history done");
}
// @verif props=C04,C09,C10 obligation=FixedChannelPlan::select_tx_channel.contract[Join,US915,nobias] label=bounded(3-joins) tier=quick bound="3 consecutive join attempts from a fresh device, every random stream"
#[kani::proof]
#[kani::unwind(74)]
fn c09_fix_join_history_us915() { tape::init(); join_history(US915::default().0, 3, false) }
// @verif props=C04,C09,C10 obligation=FixedChannelPlan::select_tx_channel.contract[Join,US915,bias] label=bounded(3-joins) tier=quick bound="3 consecutive join attempts with any join bias (1 or 2 retries), every random stream"
#[kani::proof]
#[kani::unwind(74)]
fn c09_fix_join_history_us915_bias() { tape::init(); join_history(US915::default().0, 3, true) }
