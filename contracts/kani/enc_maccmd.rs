// Contracts + harnesses for lorawan-encoding MAC-command framing (C03 totality / iterator, C19 builder-parser round trips)
// @inject file=lorawan-encoding/src/maccommands.rs mod=verif_maccmd
// @job pkg=lorawan zflags=function-contracts,stubbing
// @requires common_tape
use super::*;
use crate::verif_tape as tape;
use crate::certification::{DownlinkDUTCommand, UplinkDUTCommand};
use crate::multicast::{DownlinkRemoteSetup, UplinkRemoteSetup};

// ---- command tables written from the specifications (LoRaWAN 1.0.4 ch. 5; TS009 certification protocol;
//      TS005 remote multicast setup), NOT from the #[cmd] attributes:  cid -> payload bytes needed after the CID
pub(crate) enum Need { Unknown, Fixed(usize), Rest, GroupStatus }
pub(crate) fn spec_down_mac(cid: u8) -> Need { match cid { 0x02 => Need::Fixed(2), 0x03 => Need::Fixed(4), 0x04 => Need::Fixed(1), 0x05 => Need::Fixed(4), 0x06 => Need::Fixed(0), 0x07 => Need::Fixed(5), 0x08 => Need::Fixed(1), 0x09 => Need::Fixed(1), 0x0A => Need::Fixed(4), 0x0D => Need::Fixed(5), _ => Need::Unknown } }
pub(crate) fn spec_up_mac(cid: u8) -> Need { match cid { 0x02 => Need::Fixed(0), 0x03 => Need::Fixed(1), 0x04 => Need::Fixed(0), 0x05 => Need::Fixed(1), 0x06 => Need::Fixed(2), 0x07 => Need::Fixed(1), 0x08 => Need::Fixed(0), 0x09 => Need::Fixed(0), 0x0A => Need::Fixed(1), 0x0D => Need::Fixed(0), _ => Need::Unknown } }
pub(crate) fn spec_down_dut(cid: u8) -> Need { match cid { 0x01 => Need::Fixed(0), 0x02 => Need::Fixed(0), 0x04 => Need::Fixed(1), 0x06 => Need::Fixed(1), 0x07 => Need::Rest, 0x08 => Need::Rest, 0x09 => Need::Fixed(0), 0x20 => Need::Fixed(0), 0x7f => Need::Fixed(0), _ => Need::Unknown } }
pub(crate) fn spec_up_dut(cid: u8) -> Need { match cid { 0x08 => Need::Rest, 0x09 => Need::Fixed(2), 0x7f => Need::Fixed(12), _ => Need::Unknown } }
pub(crate) fn spec_down_mc(cid: u8) -> Need { match cid { 0x00 => Need::Fixed(0), 0x01 => Need::Fixed(1), 0x02 => Need::Fixed(29), 0x03 => Need::Fixed(1), 0x04 => Need::Fixed(10), 0x05 => Need::Fixed(10), _ => Need::Unknown } }
pub(crate) fn spec_up_mc(cid: u8) -> Need { match cid { 0x00 => Need::Fixed(2), 0x01 => Need::GroupStatus, 0x02 => Need::Fixed(1), 0x03 => Need::Fixed(1), 0x04 => Need::Fixed(4), 0x05 => Need::Fixed(4), _ => Need::Unknown } }

/// Some(n): a whole command of n bytes (CID included) starts the stream; None: truncated
pub(crate) fn spec_whole(need: &Need, data: &[u8]) -> Option<usize> {
    match need {
        Need::Unknown => None,
        Need::Fixed(l) => if data.len() >= 1 + l { Some(1 + l) } else { None },
        // no length field: the payload runs to the end of the frame and has at least one byte
        Need::Rest => if data.len() >= 2 { Some(data.len()) } else { None },
        // status byte, then 5 bytes per bit set in AnsGroupMask (low nibble)
        Need::GroupStatus => if data.len() >= 2 { let l = 1 + 1 + 5 * (data[1] & 0x0f).count_ones() as usize; if data.len() >= l { Some(l) } else { None } } else { None },
    }
}

pub(crate) const BUF: usize = 32;

/// contract of `<T as MacCommandSet>::parse_one` (requires data non-empty)
fn parse_one_contract<'a, T: MacCommandSet<'a> + SerializableMacCommand>(data: &'a [u8], need: Need, touch: fn(&T)) {
    let r = T::parse_one(data);
    match r {
        Ok((cmd, n)) => {
            assert!(n >= 1 && n <= data.len(), "C03 a parsed command lies inside the input");
            assert!(spec_whole(&need, data) == Some(n), "C03 parse_one consumes exactly the whole command the specification defines");
            assert!(cmd.cid() == data[0], "C03/C19 CID of the parsed command");
            assert!(cmd.payload_len() == n - 1 && cmd.payload_bytes().len() == n - 1, "C03 command length = consumed bytes");
            let pb = cmd.payload_bytes();
            let mut i = 0;
            while i < BUF { if i + 1 < n { assert!(pb[i] == data[1 + i], "C03 payload = the bytes after the CID"); } i += 1; }
            touch(&cmd);   // every accessor returns (value or Err), none panics
            kani::cover!(true, "verif-reached: Ok");
        }
        Err(ParseError::UnknownCid(c)) => {
            assert!(c == data[0] && matches!(need, Need::Unknown), "C03 UnknownCid exactly for CIDs the set does not define");
            kani::cover!(true, "verif-reached: UnknownCid");
        }
        Err(ParseError::Truncated { cid }) => {
            assert!(cid == data[0] && !matches!(need, Need::Unknown) && spec_whole(&need, data).is_none(), "C03 Truncated exactly when the stream ends inside a defined command");
            kani::cover!(true, "verif-reached: Truncated");
        }
    }
}

fn any_stream() -> ([u8; BUF], usize) {
    tape::init();
    let b: [u8; BUF] = tape::arr();
    let n = 1 + tape::below(BUF);
    (b, n)
}

// @verif props=C03 obligation=DownlinkMacCommand::parse_one.contract label=proved-complete tier=quick bound="every byte string of length 1..32 (longest command 6 bytes)"
#[kani::proof]
#[kani::unwind(34)]
fn c03_parse_one_downlink_mac() { let (b, n) = any_stream(); parse_one_contract::<DownlinkMacCommand<'_>>(&b[..n], spec_down_mac(b[0]), touch_DownlinkMacCommand) }
// @verif props=C03 obligation=UplinkMacCommand::parse_one.contract label=proved-complete tier=quick bound="every byte string of length 1..32"
#[kani::proof]
#[kani::unwind(34)]
fn c03_parse_one_uplink_mac() { let (b, n) = any_stream(); parse_one_contract::<UplinkMacCommand<'_>>(&b[..n], spec_up_mac(b[0]), touch_UplinkMacCommand) }
// @verif props=C03 obligation=DownlinkDUTCommand::parse_one.contract label=proved-complete tier=quick bound="every byte string of length 1..32 (variable-length commands run to the end of the input)"
#[kani::proof]
#[kani::unwind(34)]
fn c03_parse_one_downlink_dut() { let (b, n) = any_stream(); parse_one_contract::<DownlinkDUTCommand<'_>>(&b[..n], spec_down_dut(b[0]), touch_DownlinkDUTCommand) }
// @verif props=C03 obligation=UplinkDUTCommand::parse_one.contract label=proved-complete tier=quick bound="every byte string of length 1..32"
#[kani::proof]
#[kani::unwind(34)]
fn c03_parse_one_uplink_dut() { let (b, n) = any_stream(); parse_one_contract::<UplinkDUTCommand<'_>>(&b[..n], spec_up_dut(b[0]), touch_UplinkDUTCommand) }
// @verif props=C03 obligation=DownlinkRemoteSetup::parse_one.contract label=proved-complete tier=quick bound="every byte string of length 1..32 (longest command 30 bytes)"
#[kani::proof]
#[kani::unwind(34)]
fn c03_parse_one_downlink_mc() { let (b, n) = any_stream(); parse_one_contract::<DownlinkRemoteSetup<'_>>(&b[..n], spec_down_mc(b[0]), touch_DownlinkRemoteSetup) }
// @verif props=C03 obligation=UplinkRemoteSetup::parse_one.contract label=proved-complete tier=quick bound="every byte string of length 1..32 (McGroupStatusAns up to 22 bytes)"
#[kani::proof]
#[kani::unwind(34)]
fn c03_parse_one_uplink_mc() { let (b, n) = any_stream(); parse_one_contract::<UplinkRemoteSetup<'_>>(&b[..n], spec_up_mc(b[0]), touch_UplinkRemoteSetup) }

// ------------------------------------------------------------------ MacCommands::next from an ARBITRARY iterator state
fn next_contract<'a, T: MacCommandSet<'a> + SerializableMacCommand>(data: &'a [u8], need_of: fn(u8) -> Need) {
    let errored = tape::boolean();
    let mut it: MacCommands<'a, T> = MacCommands { data, errored, _commands: PhantomData };
    let r = it.next();
    if errored || data.is_empty() {
        assert!(r.is_none() && it.errored == errored && it.data.len() == data.len(), "C03 an exhausted or failed iterator stays stopped");
        kani::cover!(true, "verif-reached: stopped");
        return;
    }
    match r {
        Some(Ok(cmd)) => {
            let n = 1 + cmd.payload_len();
            assert!(spec_whole(&need_of(data[0]), data) == Some(n), "C03 the iterator yields whole commands only");
            assert!(!it.errored && it.data.len() == data.len() - n && it.data.as_ptr() == data[n..].as_ptr(), "C03 the rest of the stream is exactly the suffix after the command: lengths add up to a prefix, strictly shorter each step (termination)");
            kani::cover!(true, "verif-reached: yielded a command");
        }
        Some(Err(_)) => {
            assert!(it.errored, "C03 after the first error the iterator is fused: at most one error");
            assert!(spec_whole(&need_of(data[0]), data).is_none(), "C03 an error only where no whole command starts");
            kani::cover!(true, "verif-reached: yielded the error");
        }
        None => assert!(false, "C03 a non-empty, non-failed stream yields something"),
    }
}
// @verif props=C03 obligation=MacCommands<DownlinkMacCommand>::next.contract label=proved-complete tier=quick bound="any iterator state: any remaining bytes (0..32), any errored flag"
#[kani::proof]
#[kani::unwind(34)]
fn c03_iter_next_downlink_mac() { tape::init(); let b: [u8; BUF] = tape::arr(); let n = tape::below(BUF + 1); next_contract::<DownlinkMacCommand<'_>>(&b[..n], spec_down_mac) }
// @verif props=C03 obligation=MacCommands<UplinkMacCommand>::next.contract label=proved-complete tier=quick bound="any iterator state"
#[kani::proof]
#[kani::unwind(34)]
fn c03_iter_next_uplink_mac() { tape::init(); let b: [u8; BUF] = tape::arr(); let n = tape::below(BUF + 1); next_contract::<UplinkMacCommand<'_>>(&b[..n], spec_up_mac) }
// @verif props=C03 obligation=MacCommands<DownlinkDUTCommand>::next.contract label=proved-complete tier=quick bound="any iterator state"
#[kani::proof]
#[kani::unwind(34)]
fn c03_iter_next_downlink_dut() { tape::init(); let b: [u8; BUF] = tape::arr(); let n = tape::below(BUF + 1); next_contract::<DownlinkDUTCommand<'_>>(&b[..n], spec_down_dut) }
// @verif props=C03 obligation=MacCommands<UplinkDUTCommand>::next.contract label=proved-complete tier=quick bound="any iterator state"
#[kani::proof]
#[kani::unwind(34)]
fn c03_iter_next_uplink_dut() { tape::init(); let b: [u8; BUF] = tape::arr(); let n = tape::below(BUF + 1); next_contract::<UplinkDUTCommand<'_>>(&b[..n], spec_up_dut) }
// @verif props=C03 obligation=MacCommands<DownlinkRemoteSetup>::next.contract label=proved-complete tier=quick bound="any iterator state"
#[kani::proof]
#[kani::unwind(34)]
fn c03_iter_next_downlink_mc() { tape::init(); let b: [u8; BUF] = tape::arr(); let n = tape::below(BUF + 1); next_contract::<DownlinkRemoteSetup<'_>>(&b[..n], spec_down_mc) }
// @verif props=C03 obligation=MacCommands<UplinkRemoteSetup>::next.contract label=proved-complete tier=quick bound="any iterator state"
#[kani::proof]
#[kani::unwind(34)]
fn c03_iter_next_uplink_mc() { tape::init(); let b: [u8; BUF] = tape::arr(); let n = tape::below(BUF + 1); next_contract::<UplinkRemoteSetup<'_>>(&b[..n], spec_up_mc) }

// ================================================================================================ C19 round trips
// @verif props=C19 obligation=DownlinkMacCommand creators.framing_roundtrip label=proved-complete tier=quick
#[kani::proof]
#[kani::unwind(34)]
fn c19_roundtrip_downlink_mac() { tape::init(); roundtrip_DownlinkMacCommand(); kani::cover!(true, "verif-reached: end"); }
// @verif props=C19 obligation=UplinkMacCommand creators.framing_roundtrip label=proved-complete tier=quick
#[kani::proof]
#[kani::unwind(34)]
fn c19_roundtrip_uplink_mac() { tape::init(); roundtrip_UplinkMacCommand(); kani::cover!(true, "verif-reached: end"); }
// @verif props=C19 obligation=DownlinkDUTCommand creators.framing_roundtrip label=proved-complete tier=quick
#[kani::proof]
#[kani::unwind(34)]
fn c19_roundtrip_downlink_dut() { tape::init(); roundtrip_DownlinkDUTCommand(); kani::cover!(true, "verif-reached: end"); }
// @verif props=C19 obligation=UplinkDUTCommand creators.framing_roundtrip label=proved-complete tier=quick
#[kani::proof]
#[kani::unwind(34)]
fn c19_roundtrip_uplink_dut() { tape::init(); roundtrip_UplinkDUTCommand(); kani::cover!(true, "verif-reached: end"); }
// @verif props=C19 obligation=DownlinkRemoteSetup creators.framing_roundtrip label=proved-complete tier=quick
#[kani::proof]
#[kani::unwind(34)]
fn c19_roundtrip_downlink_mc() { tape::init(); roundtrip_DownlinkRemoteSetup(); kani::cover!(true, "verif-reached: end"); }
// @verif props=C19 obligation=UplinkRemoteSetup creators.framing_roundtrip label=proved-complete tier=quick
#[kani::proof]
#[kani::unwind(34)]
fn c19_roundtrip_uplink_mc() { tape::init(); roundtrip_UplinkRemoteSetup(); kani::cover!(true, "verif-reached: end"); }

// ---- setter <-> accessor round trips of the LoRaWAN MAC command set (field semantics, LoRaWAN 1.0.4 ch. 5)
// @verif props=C19 obligation=LoRaWAN MAC creators.field_roundtrip[requests] label=proved-complete tier=quick
#[kani::proof]
#[kani::unwind(34)]
fn c19_fields_requests() {
    tape::init();
    // LinkADRReq: DataRate, TXPower (4 bit each), ChMask (16 bit), Redundancy
    let (dr, pw, m0, m1, red) = (tape::u8(), tape::u8(), tape::u8(), tape::u8(), tape::u8());
    let mut c = LinkADRReqCreator::new();
    let r1 = c.set_data_rate(dr).is_ok();
    let r2 = c.set_tx_power(pw).is_ok();
    c.set_channel_mask([m0, m1]).set_redundancy(red);
    assert!(r1 == (dr <= 15) && r2 == (pw <= 15), "C19 out-of-range DataRate / TXPower are refused");
    if let Ok((DownlinkMacCommand::LinkADRReq(p), _)) = DownlinkMacCommand::parse_one(c.build()) {
        assert!(!r1 || p.data_rate() as u8 == dr, "C19 LinkADRReq.DataRate");
        assert!(!r2 || p.tx_power() as u8 == pw, "C19 LinkADRReq.TXPower");
        assert!(r1 || p.data_rate() as u8 == 0, "C19 a refused DataRate leaves the field alone");
        assert!(p.channel_mask().get_index(0) == m0 && p.channel_mask().get_index(1) == m1 && p.redundancy().raw_value() == red, "C19 LinkADRReq.ChMask / Redundancy");
    } else { assert!(false, "parses"); }
    // RXParamSetupReq: DLSettings, Frequency (24 bit)
    let (dl, f) = (tape::u8(), tape::arr::<3>());
    let mut c = RXParamSetupReqCreator::new();
    c.set_dl_settings(dl).set_frequency(&f);
    if let Ok((DownlinkMacCommand::RXParamSetupReq(p), _)) = DownlinkMacCommand::parse_one(c.build()) {
        assert!(p.dl_settings().raw_value() == dl && p.frequency().value() == (f[0] as u32 | (f[1] as u32) << 8 | (f[2] as u32) << 16) * 100, "C19 RXParamSetupReq fields");
    } else { assert!(false, "parses"); }
    // NewChannelReq
    let (ix, f, rg) = (tape::u8(), tape::arr::<3>(), tape::u8());
    let mut c = NewChannelReqCreator::new();
    c.set_channel_index(ix).set_frequency(&f).set_data_rate_range(rg);
    if let Ok((DownlinkMacCommand::NewChannelReq(p), _)) = DownlinkMacCommand::parse_one(c.build()) {
        assert!(p.channel_index() == ix && p.frequency().value() == (f[0] as u32 | (f[1] as u32) << 8 | (f[2] as u32) << 16) * 100, "C19 NewChannelReq index / frequency");
        assert!(p.data_rate_range().is_ok() == ((rg >> 4) >= (rg & 15)) && (p.data_rate_range().is_err() || p.data_rate_range().unwrap().raw_value() == rg), "C19 NewChannelReq DrRange");
    } else { assert!(false, "parses"); }
    // DlChannelReq
    let (ix, f) = (tape::u8(), tape::arr::<3>());
    let mut c = DlChannelReqCreator::new();
    c.set_channel_index(ix).set_frequency(&f);
    if let Ok((DownlinkMacCommand::DlChannelReq(p), _)) = DownlinkMacCommand::parse_one(c.build()) {
        assert!(p.channel_index() == ix && p.frequency().value() == (f[0] as u32 | (f[1] as u32) << 8 | (f[2] as u32) << 16) * 100, "C19 DlChannelReq fields");
    } else { assert!(false, "parses"); }
    // RXTimingSetupReq: Del 0..15
    let d = tape::u8();
    let mut c = RXTimingSetupReqCreator::new();
    let ok = c.set_delay(d).is_ok();
    assert!(ok == (d <= 15), "C19 RXTimingSetupReq: Del beyond 4 bits refused");
    if let Ok((DownlinkMacCommand::RXTimingSetupReq(p), _)) = DownlinkMacCommand::parse_one(c.build()) { assert!(p.delay() == (if ok { d } else { 0 }), "C19 RXTimingSetupReq.Del"); } else { assert!(false, "parses"); }
    // LinkCheckAns
    let (mg, gw) = (tape::u8(), tape::u8());
    let mut c = LinkCheckAnsCreator::new();
    c.set_margin(mg).set_gateway_count(gw);
    if let Ok((DownlinkMacCommand::LinkCheckAns(p), _)) = DownlinkMacCommand::parse_one(c.build()) { assert!(p.margin() == mg && p.gateway_count() == gw, "C19 LinkCheckAns fields"); } else { assert!(false, "parses"); }
    kani::cover!(true, "verif-reached: end");
}

/// KF-C19-1 (open finding): DeviceTimeAns seconds do not survive the builder/parser round trip
fn device_time_roundtrip(witness: bool) {
    tape::init();
    let (sec, ns) = (tape::u32(), tape::u32());
    // the two byte orders agree only for palindromic values
    let b = sec.to_le_bytes();
    kani::assume((b[0] != b[3] || b[1] != b[2]) == witness);
    let mut c = DeviceTimeAnsCreator::new();
    c.set_seconds(sec);
    let _ = c.set_nano_seconds(ns);
    if let Ok((DownlinkMacCommand::DeviceTimeAns(p), _)) = DownlinkMacCommand::parse_one(c.build()) {
        assert!(p.seconds() == sec, "C19 DeviceTimeAns.seconds survives the round trip");
    } else { assert!(false, "parses"); }
    kani::cover!(true, "verif-reached: end");
}
// @verif props=C19 obligation=DeviceTimeAns.field_roundtrip label=proved-complete tier=quick
#[kani::proof]
fn c19_fields_device_time() { device_time_roundtrip(false) }
// witness of KF-C19-1, expected to FAIL while the finding is open
// @verif props=C19 obligation=DeviceTimeAns.field_roundtrip[KF-C19-1] label=proved-complete tier=quick finding=KF-C19-1
#[kani::proof]
fn c19_fields_device_time_kf1_witness() { device_time_roundtrip(true) }

// @verif props=C19 obligation=LoRaWAN MAC creators.field_roundtrip[answers] label=proved-complete tier=quick
#[kani::proof]
#[kani::unwind(34)]
fn c19_fields_answers() {
    tape::init();
    let (a, b, c3) = (tape::boolean(), tape::boolean(), tape::boolean());
    let mut c = LinkADRAnsCreator::new();
    c.set_channel_mask_ack(a).set_data_rate_ack(b).set_tx_power_ack(c3);
    if let Ok((UplinkMacCommand::LinkADRAns(p), _)) = UplinkMacCommand::parse_one(c.build()) {
        assert!(p.channel_mask_ack() == a && p.data_rate_ack() == b && p.powert_ack() == c3 && p.ack() == (a && b && c3), "C19 LinkADRAns status bits");
    } else { assert!(false, "parses"); }
    let mut c = RXParamSetupAnsCreator::new();
    c.set_channel_ack(a).set_rx2_data_rate_ack(b).set_rx1_data_rate_offset_ack(c3);
    if let Ok((UplinkMacCommand::RXParamSetupAns(p), _)) = UplinkMacCommand::parse_one(c.build()) {
        assert!(p.channel_ack() == a && p.rx2_data_rate_ack() == b && p.rx1_dr_offset_ack() == c3 && p.ack() == (a && b && c3), "C19 RXParamSetupAns status bits");
    } else { assert!(false, "parses"); }
    let mut c = NewChannelAnsCreator::new();
    c.set_channel_frequency_ack(a).set_data_rate_range_ack(b);
    if let Ok((UplinkMacCommand::NewChannelAns(p), _)) = UplinkMacCommand::parse_one(c.build()) {
        assert!(p.channel_freq_ack() == a && p.data_rate_range_ack() == b && p.ack() == (a && b), "C19 NewChannelAns status bits");
    } else { assert!(false, "parses"); }
    let mut c = DlChannelAnsCreator::new();
    c.set_channel_frequency_ack(a).set_uplink_frequency_exists_ack(b);
    if let Ok((UplinkMacCommand::DlChannelAns(p), _)) = UplinkMacCommand::parse_one(c.build()) {
        assert!(p.channel_freq_ack() == a && p.uplink_freq_ack() == b && p.ack() == (a && b), "C19 DlChannelAns status bits");
    } else { assert!(false, "parses"); }
    let (bat, mg) = (tape::u8(), tape::i8());
    let mut c = DevStatusAnsCreator::new();
    c.set_battery(bat);
    let ok = c.set_margin(mg).is_ok();
    assert!(ok == (mg >= -32 && mg <= 31), "C19 DevStatusAns margin outside the 6-bit signed range refused");
    if let Ok((UplinkMacCommand::DevStatusAns(p), _)) = UplinkMacCommand::parse_one(c.build()) {
        assert!(p.battery() == bat && p.margin() == (if ok { mg } else { 0 }), "C19 DevStatusAns fields (margin sign-extended from 6 bits)");
    } else { assert!(false, "parses"); }
    kani::cover!(true, "verif-reached: end");
}

// GENERATED by tools/gen_enc_harness.py from /repo/lorawan-encoding/src -- do not edit by hand
/// call every argument-less accessor of the parsed command: none may panic (C03)
pub(crate) fn touch_DownlinkMacCommand(c: &DownlinkMacCommand<'_>) {
    match c {
        DownlinkMacCommand::LinkCheckAns(p) => { let _ = p.bytes(); let _ = p.gateway_count(); let _ = p.margin(); }
        DownlinkMacCommand::LinkADRReq(p) => { let _ = p.bytes(); let _ = p.channel_mask(); let _ = p.data_rate(); let _ = p.redundancy(); let _ = p.tx_power(); }
        DownlinkMacCommand::DutyCycleReq(p) => { let _ = p.bytes(); let _ = p.max_duty_cycle_raw(); }
        DownlinkMacCommand::RXParamSetupReq(p) => { let _ = p.bytes(); let _ = p.dl_settings(); let _ = p.frequency(); }
        DownlinkMacCommand::DevStatusReq(p) => { let _ = p.bytes();  }
        DownlinkMacCommand::NewChannelReq(p) => { let _ = p.bytes(); let _ = p.channel_index(); let _ = p.data_rate_range(); let _ = p.frequency(); }
        DownlinkMacCommand::RXTimingSetupReq(p) => { let _ = p.bytes(); let _ = p.delay(); }
        DownlinkMacCommand::TXParamSetupReq(p) => { let _ = p.bytes(); let _ = p.downlink_dwell_time(); let _ = p.max_eirp(); let _ = p.uplink_dwell_time(); }
        DownlinkMacCommand::DlChannelReq(p) => { let _ = p.bytes(); let _ = p.channel_index(); let _ = p.frequency(); }
        DownlinkMacCommand::DeviceTimeAns(p) => { let _ = p.bytes(); let _ = p.nano_seconds(); let _ = p.seconds(); }
    }
}
/// call every argument-less accessor of the parsed command: none may panic (C03)
pub(crate) fn touch_UplinkMacCommand(c: &UplinkMacCommand<'_>) {
    match c {
        UplinkMacCommand::LinkCheckReq(p) => { let _ = p.bytes();  }
        UplinkMacCommand::LinkADRAns(p) => { let _ = p.bytes(); let _ = p.ack(); let _ = p.channel_mask_ack(); let _ = p.data_rate_ack(); let _ = p.powert_ack(); }
        UplinkMacCommand::DutyCycleAns(p) => { let _ = p.bytes();  }
        UplinkMacCommand::RXParamSetupAns(p) => { let _ = p.bytes(); let _ = p.ack(); let _ = p.channel_ack(); let _ = p.rx1_dr_offset_ack(); let _ = p.rx2_data_rate_ack(); }
        UplinkMacCommand::DevStatusAns(p) => { let _ = p.bytes(); let _ = p.battery(); let _ = p.margin(); }
        UplinkMacCommand::NewChannelAns(p) => { let _ = p.bytes(); let _ = p.ack(); let _ = p.channel_freq_ack(); let _ = p.data_rate_range_ack(); }
        UplinkMacCommand::RXTimingSetupAns(p) => { let _ = p.bytes();  }
        UplinkMacCommand::TXParamSetupAns(p) => { let _ = p.bytes();  }
        UplinkMacCommand::DlChannelAns(p) => { let _ = p.bytes(); let _ = p.ack(); let _ = p.channel_freq_ack(); let _ = p.uplink_freq_ack(); }
        UplinkMacCommand::DeviceTimeReq(p) => { let _ = p.bytes();  }
    }
}
/// call every argument-less accessor of the parsed command: none may panic (C03)
pub(crate) fn touch_DownlinkDUTCommand(c: &DownlinkDUTCommand<'_>) {
    match c {
        DownlinkDUTCommand::DutResetReq(p) => { let _ = p.bytes();  }
        DownlinkDUTCommand::DutJoinReq(p) => { let _ = p.bytes();  }
        DownlinkDUTCommand::AdrBitChangeReq(p) => { let _ = p.bytes(); let _ = p.adr_enable(); }
        DownlinkDUTCommand::TxPeriodicityChangeReq(p) => { let _ = p.bytes(); let _ = p.periodicity(); }
        DownlinkDUTCommand::TxFramesCtrlReq(p) => { let _ = p.bytes(); let _ = p.frame_type_override(); }
        DownlinkDUTCommand::EchoIncPayloadReq(p) => { let _ = p.bytes(); let _ = p.payload(); }
        DownlinkDUTCommand::RxAppCntReq(p) => { let _ = p.bytes();  }
        DownlinkDUTCommand::LinkCheckReq(p) => { let _ = p.bytes();  }
        DownlinkDUTCommand::DutVersionsReq(p) => { let _ = p.bytes();  }
    }
}
/// call every argument-less accessor of the parsed command: none may panic (C03)
pub(crate) fn touch_UplinkDUTCommand(c: &UplinkDUTCommand<'_>) {
    match c {
        UplinkDUTCommand::EchoIncPayloadAns(p) => { let _ = p.bytes(); let _ = p.payload(); }
        UplinkDUTCommand::RxAppCntAns(p) => { let _ = p.bytes();  }
        UplinkDUTCommand::DutVersionsAns(p) => { let _ = p.bytes();  }
    }
}
/// call every argument-less accessor of the parsed command: none may panic (C03)
pub(crate) fn touch_DownlinkRemoteSetup(c: &DownlinkRemoteSetup<'_>) {
    match c {
        DownlinkRemoteSetup::PackageVersionReq(p) => { let _ = p.bytes();  }
        DownlinkRemoteSetup::McGroupStatusReq(p) => { let _ = p.bytes(); let _ = p.req_group_mask(); }
        DownlinkRemoteSetup::McGroupSetupReq(p) => { let _ = p.bytes(); let _ = p.max_mc_fcount(); let _ = p.mc_addr(); let _ = p.mc_group_id_header(); let _ = p.min_mc_fcount(); }
        DownlinkRemoteSetup::McGroupDeleteReq(p) => { let _ = p.bytes(); let _ = p.mc_group_id_header(); }
        DownlinkRemoteSetup::McClassCSessionReq(p) => { let _ = p.bytes();  }
        DownlinkRemoteSetup::McClassBSessionReq(p) => { let _ = p.bytes();  }
    }
}
/// call every argument-less accessor of the parsed command: none may panic (C03)
pub(crate) fn touch_UplinkRemoteSetup(c: &UplinkRemoteSetup<'_>) {
    match c {
        UplinkRemoteSetup::PackageVersionAns(p) => { let _ = p.bytes(); let _ = p.package_identifier(); let _ = p.package_version(); }
        UplinkRemoteSetup::McGroupStatusAns(p) => { let _ = p.bytes(); let _ = p.ans_group_mask(); let _ = p.item_iterator(); let _ = p.nb_total_groups(); }
        UplinkRemoteSetup::McGroupSetupAns(p) => { let _ = p.bytes(); let _ = p.mc_group_id_header(); }
        UplinkRemoteSetup::McGroupDeleteAns(p) => { let _ = p.bytes(); let _ = p.mc_group_id_header(); let _ = p.mc_group_undefined(); }
        UplinkRemoteSetup::McClassCSessionAns(p) => { let _ = p.bytes();  }
        UplinkRemoteSetup::McClassBSessionAns(p) => { let _ = p.bytes();  }
    }
}
/// every fixed-length creator of DownlinkMacCommand: build() parses back to the same command with the same payload bytes
pub(crate) fn roundtrip_DownlinkMacCommand() {
    {
        let mut c = crate::maccommands::LinkCheckAnsCreator::new();
        let mut i = 1; while i < 3 { c.data[i] = tape::u8(); i += 1; }
        let b = c.build();
        assert!(b.len() == 3 && b[0] == 0x02 && c.cid() == 0x02, "C19 LinkCheckAnsCreator: CID and length");
        match <DownlinkMacCommand<'_> as MacCommandSet<'_>>::parse_one(b) {
            Ok((crate::maccommands::DownlinkMacCommand::LinkCheckAns(p), n)) => { assert!(n == b.len(), "C19 parse consumes exactly what LinkCheckAnsCreator built"); let pb = p.bytes(); let mut k = 0; while k < 2 { assert!(pb[k] == b[1 + k], "C19 LinkCheckAns payload bytes survive the round trip"); k += 1; } }
            _ => assert!(false, "C19 LinkCheckAnsCreator output parses back as LinkCheckAns"),
        }
    }
    {
        let mut c = crate::maccommands::LinkADRReqCreator::new();
        let mut i = 1; while i < 5 { c.data[i] = tape::u8(); i += 1; }
        let b = c.build();
        assert!(b.len() == 5 && b[0] == 0x03 && c.cid() == 0x03, "C19 LinkADRReqCreator: CID and length");
        match <DownlinkMacCommand<'_> as MacCommandSet<'_>>::parse_one(b) {
            Ok((crate::maccommands::DownlinkMacCommand::LinkADRReq(p), n)) => { assert!(n == b.len(), "C19 parse consumes exactly what LinkADRReqCreator built"); let pb = p.bytes(); let mut k = 0; while k < 4 { assert!(pb[k] == b[1 + k], "C19 LinkADRReq payload bytes survive the round trip"); k += 1; } }
            _ => assert!(false, "C19 LinkADRReqCreator output parses back as LinkADRReq"),
        }
    }
    {
        let mut c = crate::maccommands::DutyCycleReqCreator::new();
        let mut i = 1; while i < 2 { c.data[i] = tape::u8(); i += 1; }
        let b = c.build();
        assert!(b.len() == 2 && b[0] == 0x04 && c.cid() == 0x04, "C19 DutyCycleReqCreator: CID and length");
        match <DownlinkMacCommand<'_> as MacCommandSet<'_>>::parse_one(b) {
            Ok((crate::maccommands::DownlinkMacCommand::DutyCycleReq(p), n)) => { assert!(n == b.len(), "C19 parse consumes exactly what DutyCycleReqCreator built"); let pb = p.bytes(); let mut k = 0; while k < 1 { assert!(pb[k] == b[1 + k], "C19 DutyCycleReq payload bytes survive the round trip"); k += 1; } }
            _ => assert!(false, "C19 DutyCycleReqCreator output parses back as DutyCycleReq"),
        }
    }
    {
        let mut c = crate::maccommands::RXParamSetupReqCreator::new();
        let mut i = 1; while i < 5 { c.data[i] = tape::u8(); i += 1; }
        let b = c.build();
        assert!(b.len() == 5 && b[0] == 0x05 && c.cid() == 0x05, "C19 RXParamSetupReqCreator: CID and length");
        match <DownlinkMacCommand<'_> as MacCommandSet<'_>>::parse_one(b) {
            Ok((crate::maccommands::DownlinkMacCommand::RXParamSetupReq(p), n)) => { assert!(n == b.len(), "C19 parse consumes exactly what RXParamSetupReqCreator built"); let pb = p.bytes(); let mut k = 0; while k < 4 { assert!(pb[k] == b[1 + k], "C19 RXParamSetupReq payload bytes survive the round trip"); k += 1; } }
            _ => assert!(false, "C19 RXParamSetupReqCreator output parses back as RXParamSetupReq"),
        }
    }
    {
        let mut c = crate::maccommands::DevStatusReqCreator::new();
        let mut i = 1; while i < 1 { c.data[i] = tape::u8(); i += 1; }
        let b = c.build();
        assert!(b.len() == 1 && b[0] == 0x06 && c.cid() == 0x06, "C19 DevStatusReqCreator: CID and length");
        match <DownlinkMacCommand<'_> as MacCommandSet<'_>>::parse_one(b) {
            Ok((crate::maccommands::DownlinkMacCommand::DevStatusReq(p), n)) => { assert!(n == b.len(), "C19 parse consumes exactly what DevStatusReqCreator built"); let pb = p.bytes(); let mut k = 0; while k < 0 { assert!(pb[k] == b[1 + k], "C19 DevStatusReq payload bytes survive the round trip"); k += 1; } }
            _ => assert!(false, "C19 DevStatusReqCreator output parses back as DevStatusReq"),
        }
    }
    {
        let mut c = crate::maccommands::NewChannelReqCreator::new();
        let mut i = 1; while i < 6 { c.data[i] = tape::u8(); i += 1; }
        let b = c.build();
        assert!(b.len() == 6 && b[0] == 0x07 && c.cid() == 0x07, "C19 NewChannelReqCreator: CID and length");
        match <DownlinkMacCommand<'_> as MacCommandSet<'_>>::parse_one(b) {
            Ok((crate::maccommands::DownlinkMacCommand::NewChannelReq(p), n)) => { assert!(n == b.len(), "C19 parse consumes exactly what NewChannelReqCreator built"); let pb = p.bytes(); let mut k = 0; while k < 5 { assert!(pb[k] == b[1 + k], "C19 NewChannelReq payload bytes survive the round trip"); k += 1; } }
            _ => assert!(false, "C19 NewChannelReqCreator output parses back as NewChannelReq"),
        }
    }
    {
        let mut c = crate::maccommands::RXTimingSetupReqCreator::new();
        let mut i = 1; while i < 2 { c.data[i] = tape::u8(); i += 1; }
        let b = c.build();
        assert!(b.len() == 2 && b[0] == 0x08 && c.cid() == 0x08, "C19 RXTimingSetupReqCreator: CID and length");
        match <DownlinkMacCommand<'_> as MacCommandSet<'_>>::parse_one(b) {
            Ok((crate::maccommands::DownlinkMacCommand::RXTimingSetupReq(p), n)) => { assert!(n == b.len(), "C19 parse consumes exactly what RXTimingSetupReqCreator built"); let pb = p.bytes(); let mut k = 0; while k < 1 { assert!(pb[k] == b[1 + k], "C19 RXTimingSetupReq payload bytes survive the round trip"); k += 1; } }
            _ => assert!(false, "C19 RXTimingSetupReqCreator output parses back as RXTimingSetupReq"),
        }
    }
    {
        let mut c = crate::maccommands::TXParamSetupReqCreator::new();
        let mut i = 1; while i < 2 { c.data[i] = tape::u8(); i += 1; }
        let b = c.build();
        assert!(b.len() == 2 && b[0] == 0x09 && c.cid() == 0x09, "C19 TXParamSetupReqCreator: CID and length");
        match <DownlinkMacCommand<'_> as MacCommandSet<'_>>::parse_one(b) {
            Ok((crate::maccommands::DownlinkMacCommand::TXParamSetupReq(p), n)) => { assert!(n == b.len(), "C19 parse consumes exactly what TXParamSetupReqCreator built"); let pb = p.bytes(); let mut k = 0; while k < 1 { assert!(pb[k] == b[1 + k], "C19 TXParamSetupReq payload bytes survive the round trip"); k += 1; } }
            _ => assert!(false, "C19 TXParamSetupReqCreator output parses back as TXParamSetupReq"),
        }
    }
    {
        let mut c = crate::maccommands::DlChannelReqCreator::new();
        let mut i = 1; while i < 5 { c.data[i] = tape::u8(); i += 1; }
        let b = c.build();
        assert!(b.len() == 5 && b[0] == 0x0a && c.cid() == 0x0a, "C19 DlChannelReqCreator: CID and length");
        match <DownlinkMacCommand<'_> as MacCommandSet<'_>>::parse_one(b) {
            Ok((crate::maccommands::DownlinkMacCommand::DlChannelReq(p), n)) => { assert!(n == b.len(), "C19 parse consumes exactly what DlChannelReqCreator built"); let pb = p.bytes(); let mut k = 0; while k < 4 { assert!(pb[k] == b[1 + k], "C19 DlChannelReq payload bytes survive the round trip"); k += 1; } }
            _ => assert!(false, "C19 DlChannelReqCreator output parses back as DlChannelReq"),
        }
    }
    {
        let mut c = crate::maccommands::DeviceTimeAnsCreator::new();
        let mut i = 1; while i < 6 { c.data[i] = tape::u8(); i += 1; }
        let b = c.build();
        assert!(b.len() == 6 && b[0] == 0x0d && c.cid() == 0x0d, "C19 DeviceTimeAnsCreator: CID and length");
        match <DownlinkMacCommand<'_> as MacCommandSet<'_>>::parse_one(b) {
            Ok((crate::maccommands::DownlinkMacCommand::DeviceTimeAns(p), n)) => { assert!(n == b.len(), "C19 parse consumes exactly what DeviceTimeAnsCreator built"); let pb = p.bytes(); let mut k = 0; while k < 5 { assert!(pb[k] == b[1 + k], "C19 DeviceTimeAns payload bytes survive the round trip"); k += 1; } }
            _ => assert!(false, "C19 DeviceTimeAnsCreator output parses back as DeviceTimeAns"),
        }
    }
}
/// every fixed-length creator of UplinkMacCommand: build() parses back to the same command with the same payload bytes
pub(crate) fn roundtrip_UplinkMacCommand() {
    {
        let mut c = crate::maccommands::LinkCheckReqCreator::new();
        let mut i = 1; while i < 1 { c.data[i] = tape::u8(); i += 1; }
        let b = c.build();
        assert!(b.len() == 1 && b[0] == 0x02 && c.cid() == 0x02, "C19 LinkCheckReqCreator: CID and length");
        match <UplinkMacCommand<'_> as MacCommandSet<'_>>::parse_one(b) {
            Ok((crate::maccommands::UplinkMacCommand::LinkCheckReq(p), n)) => { assert!(n == b.len(), "C19 parse consumes exactly what LinkCheckReqCreator built"); let pb = p.bytes(); let mut k = 0; while k < 0 { assert!(pb[k] == b[1 + k], "C19 LinkCheckReq payload bytes survive the round trip"); k += 1; } }
            _ => assert!(false, "C19 LinkCheckReqCreator output parses back as LinkCheckReq"),
        }
    }
    {
        let mut c = crate::maccommands::LinkADRAnsCreator::new();
        let mut i = 1; while i < 2 { c.data[i] = tape::u8(); i += 1; }
        let b = c.build();
        assert!(b.len() == 2 && b[0] == 0x03 && c.cid() == 0x03, "C19 LinkADRAnsCreator: CID and length");
        match <UplinkMacCommand<'_> as MacCommandSet<'_>>::parse_one(b) {
            Ok((crate::maccommands::UplinkMacCommand::LinkADRAns(p), n)) => { assert!(n == b.len(), "C19 parse consumes exactly what LinkADRAnsCreator built"); let pb = p.bytes(); let mut k = 0; while k < 1 { assert!(pb[k] == b[1 + k], "C19 LinkADRAns payload bytes survive the round trip"); k += 1; } }
            _ => assert!(false, "C19 LinkADRAnsCreator output parses back as LinkADRAns"),
        }
    }
    {
        let mut c = crate::maccommands::DutyCycleAnsCreator::new();
        let mut i = 1; while i < 1 { c.data[i] = tape::u8(); i += 1; }
        let b = c.build();
        assert!(b.len() == 1 && b[0] == 0x04 && c.cid() == 0x04, "C19 DutyCycleAnsCreator: CID and length");
        match <UplinkMacCommand<'_> as MacCommandSet<'_>>::parse_one(b) {
            Ok((crate::maccommands::UplinkMacCommand::DutyCycleAns(p), n)) => { assert!(n == b.len(), "C19 parse consumes exactly what DutyCycleAnsCreator built"); let pb = p.bytes(); let mut k = 0; while k < 0 { assert!(pb[k] == b[1 + k], "C19 DutyCycleAns payload bytes survive the round trip"); k += 1; } }
            _ => assert!(false, "C19 DutyCycleAnsCreator output parses back as DutyCycleAns"),
        }
    }
    {
        let mut c = crate::maccommands::RXParamSetupAnsCreator::new();
        let mut i = 1; while i < 2 { c.data[i] = tape::u8(); i += 1; }
        let b = c.build();
        assert!(b.len() == 2 && b[0] == 0x05 && c.cid() == 0x05, "C19 RXParamSetupAnsCreator: CID and length");
        match <UplinkMacCommand<'_> as MacCommandSet<'_>>::parse_one(b) {
            Ok((crate::maccommands::UplinkMacCommand::RXParamSetupAns(p), n)) => { assert!(n == b.len(), "C19 parse consumes exactly what RXParamSetupAnsCreator built"); let pb = p.bytes(); let mut k = 0; while k < 1 { assert!(pb[k] == b[1 + k], "C19 RXParamSetupAns payload bytes survive the round trip"); k += 1; } }
            _ => assert!(false, "C19 RXParamSetupAnsCreator output parses back as RXParamSetupAns"),
        }
    }
    {
        let mut c = crate::maccommands::DevStatusAnsCreator::new();
        let mut i = 1; while i < 3 { c.data[i] = tape::u8(); i += 1; }
        let b = c.build();
        assert!(b.len() == 3 && b[0] == 0x06 && c.cid() == 0x06, "C19 DevStatusAnsCreator: CID and length");
        match <UplinkMacCommand<'_> as MacCommandSet<'_>>::parse_one(b) {
            Ok((crate::maccommands::UplinkMacCommand::DevStatusAns(p), n)) => { assert!(n == b.len(), "C19 parse consumes exactly what DevStatusAnsCreator built"); let pb = p.bytes(); let mut k = 0; while k < 2 { assert!(pb[k] == b[1 + k], "C19 DevStatusAns payload bytes survive the round trip"); k += 1; } }
            _ => assert!(false, "C19 DevStatusAnsCreator output parses back as DevStatusAns"),
        }
    }
    {
        let mut c = crate::maccommands::NewChannelAnsCreator::new();
        let mut i = 1; while i < 2 { c.data[i] = tape::u8(); i += 1; }
        let b = c.build();
        assert!(b.len() == 2 && b[0] == 0x07 && c.cid() == 0x07, "C19 NewChannelAnsCreator: CID and length");
        match <UplinkMacCommand<'_> as MacCommandSet<'_>>::parse_one(b) {
            Ok((crate::maccommands::UplinkMacCommand::NewChannelAns(p), n)) => { assert!(n == b.len(), "C19 parse consumes exactly what NewChannelAnsCreator built"); let pb = p.bytes(); let mut k = 0; while k < 1 { assert!(pb[k] == b[1 + k], "C19 NewChannelAns payload bytes survive the round trip"); k += 1; } }
            _ => assert!(false, "C19 NewChannelAnsCreator output parses back as NewChannelAns"),
        }
    }
    {
        let mut c = crate::maccommands::RXTimingSetupAnsCreator::new();
        let mut i = 1; while i < 1 { c.data[i] = tape::u8(); i += 1; }
        let b = c.build();
        assert!(b.len() == 1 && b[0] == 0x08 && c.cid() == 0x08, "C19 RXTimingSetupAnsCreator: CID and length");
        match <UplinkMacCommand<'_> as MacCommandSet<'_>>::parse_one(b) {
            Ok((crate::maccommands::UplinkMacCommand::RXTimingSetupAns(p), n)) => { assert!(n == b.len(), "C19 parse consumes exactly what RXTimingSetupAnsCreator built"); let pb = p.bytes(); let mut k = 0; while k < 0 { assert!(pb[k] == b[1 + k], "C19 RXTimingSetupAns payload bytes survive the round trip"); k += 1; } }
            _ => assert!(false, "C19 RXTimingSetupAnsCreator output parses back as RXTimingSetupAns"),
        }
    }
    {
        let mut c = crate::maccommands::TXParamSetupAnsCreator::new();
        let mut i = 1; while i < 1 { c.data[i] = tape::u8(); i += 1; }
        let b = c.build();
        assert!(b.len() == 1 && b[0] == 0x09 && c.cid() == 0x09, "C19 TXParamSetupAnsCreator: CID and length");
        match <UplinkMacCommand<'_> as MacCommandSet<'_>>::parse_one(b) {
            Ok((crate::maccommands::UplinkMacCommand::TXParamSetupAns(p), n)) => { assert!(n == b.len(), "C19 parse consumes exactly what TXParamSetupAnsCreator built"); let pb = p.bytes(); let mut k = 0; while k < 0 { assert!(pb[k] == b[1 + k], "C19 TXParamSetupAns payload bytes survive the round trip"); k += 1; } }
            _ => assert!(false, "C19 TXParamSetupAnsCreator output parses back as TXParamSetupAns"),
        }
    }
    {
        let mut c = crate::maccommands::DlChannelAnsCreator::new();
        let mut i = 1; while i < 2 { c.data[i] = tape::u8(); i += 1; }
        let b = c.build();
        assert!(b.len() == 2 && b[0] == 0x0a && c.cid() == 0x0a, "C19 DlChannelAnsCreator: CID and length");
        match <UplinkMacCommand<'_> as MacCommandSet<'_>>::parse_one(b) {
            Ok((crate::maccommands::UplinkMacCommand::DlChannelAns(p), n)) => { assert!(n == b.len(), "C19 parse consumes exactly what DlChannelAnsCreator built"); let pb = p.bytes(); let mut k = 0; while k < 1 { assert!(pb[k] == b[1 + k], "C19 DlChannelAns payload bytes survive the round trip"); k += 1; } }
            _ => assert!(false, "C19 DlChannelAnsCreator output parses back as DlChannelAns"),
        }
    }
    {
        let mut c = crate::maccommands::DeviceTimeReqCreator::new();
        let mut i = 1; while i < 1 { c.data[i] = tape::u8(); i += 1; }
        let b = c.build();
        assert!(b.len() == 1 && b[0] == 0x0d && c.cid() == 0x0d, "C19 DeviceTimeReqCreator: CID and length");
        match <UplinkMacCommand<'_> as MacCommandSet<'_>>::parse_one(b) {
            Ok((crate::maccommands::UplinkMacCommand::DeviceTimeReq(p), n)) => { assert!(n == b.len(), "C19 parse consumes exactly what DeviceTimeReqCreator built"); let pb = p.bytes(); let mut k = 0; while k < 0 { assert!(pb[k] == b[1 + k], "C19 DeviceTimeReq payload bytes survive the round trip"); k += 1; } }
            _ => assert!(false, "C19 DeviceTimeReqCreator output parses back as DeviceTimeReq"),
        }
    }
}
/// every fixed-length creator of DownlinkDUTCommand: build() parses back to the same command with the same payload bytes
pub(crate) fn roundtrip_DownlinkDUTCommand() {
    {
        let mut c = crate::certification::DutResetReqCreator::new();
        let mut i = 1; while i < 1 { c.data[i] = tape::u8(); i += 1; }
        let b = c.build();
        assert!(b.len() == 1 && b[0] == 0x01 && c.cid() == 0x01, "C19 DutResetReqCreator: CID and length");
        match <DownlinkDUTCommand<'_> as MacCommandSet<'_>>::parse_one(b) {
            Ok((crate::certification::DownlinkDUTCommand::DutResetReq(p), n)) => { assert!(n == b.len(), "C19 parse consumes exactly what DutResetReqCreator built"); let pb = p.bytes(); let mut k = 0; while k < 0 { assert!(pb[k] == b[1 + k], "C19 DutResetReq payload bytes survive the round trip"); k += 1; } }
            _ => assert!(false, "C19 DutResetReqCreator output parses back as DutResetReq"),
        }
    }
    {
        let mut c = crate::certification::DutJoinReqCreator::new();
        let mut i = 1; while i < 1 { c.data[i] = tape::u8(); i += 1; }
        let b = c.build();
        assert!(b.len() == 1 && b[0] == 0x02 && c.cid() == 0x02, "C19 DutJoinReqCreator: CID and length");
        match <DownlinkDUTCommand<'_> as MacCommandSet<'_>>::parse_one(b) {
            Ok((crate::certification::DownlinkDUTCommand::DutJoinReq(p), n)) => { assert!(n == b.len(), "C19 parse consumes exactly what DutJoinReqCreator built"); let pb = p.bytes(); let mut k = 0; while k < 0 { assert!(pb[k] == b[1 + k], "C19 DutJoinReq payload bytes survive the round trip"); k += 1; } }
            _ => assert!(false, "C19 DutJoinReqCreator output parses back as DutJoinReq"),
        }
    }
    {
        let mut c = crate::certification::AdrBitChangeReqCreator::new();
        let mut i = 1; while i < 2 { c.data[i] = tape::u8(); i += 1; }
        let b = c.build();
        assert!(b.len() == 2 && b[0] == 0x04 && c.cid() == 0x04, "C19 AdrBitChangeReqCreator: CID and length");
        match <DownlinkDUTCommand<'_> as MacCommandSet<'_>>::parse_one(b) {
            Ok((crate::certification::DownlinkDUTCommand::AdrBitChangeReq(p), n)) => { assert!(n == b.len(), "C19 parse consumes exactly what AdrBitChangeReqCreator built"); let pb = p.bytes(); let mut k = 0; while k < 1 { assert!(pb[k] == b[1 + k], "C19 AdrBitChangeReq payload bytes survive the round trip"); k += 1; } }
            _ => assert!(false, "C19 AdrBitChangeReqCreator output parses back as AdrBitChangeReq"),
        }
    }
    {
        let mut c = crate::certification::TxPeriodicityChangeReqCreator::new();
        let mut i = 1; while i < 2 { c.data[i] = tape::u8(); i += 1; }
        let b = c.build();
        assert!(b.len() == 2 && b[0] == 0x06 && c.cid() == 0x06, "C19 TxPeriodicityChangeReqCreator: CID and length");
        match <DownlinkDUTCommand<'_> as MacCommandSet<'_>>::parse_one(b) {
            Ok((crate::certification::DownlinkDUTCommand::TxPeriodicityChangeReq(p), n)) => { assert!(n == b.len(), "C19 parse consumes exactly what TxPeriodicityChangeReqCreator built"); let pb = p.bytes(); let mut k = 0; while k < 1 { assert!(pb[k] == b[1 + k], "C19 TxPeriodicityChangeReq payload bytes survive the round trip"); k += 1; } }
            _ => assert!(false, "C19 TxPeriodicityChangeReqCreator output parses back as TxPeriodicityChangeReq"),
        }
    }
    {
        let mut c = crate::certification::RxAppCntReqCreator::new();
        let mut i = 1; while i < 1 { c.data[i] = tape::u8(); i += 1; }
        let b = c.build();
        assert!(b.len() == 1 && b[0] == 0x09 && c.cid() == 0x09, "C19 RxAppCntReqCreator: CID and length");
        match <DownlinkDUTCommand<'_> as MacCommandSet<'_>>::parse_one(b) {
            Ok((crate::certification::DownlinkDUTCommand::RxAppCntReq(p), n)) => { assert!(n == b.len(), "C19 parse consumes exactly what RxAppCntReqCreator built"); let pb = p.bytes(); let mut k = 0; while k < 0 { assert!(pb[k] == b[1 + k], "C19 RxAppCntReq payload bytes survive the round trip"); k += 1; } }
            _ => assert!(false, "C19 RxAppCntReqCreator output parses back as RxAppCntReq"),
        }
    }
    {
        let mut c = crate::certification::LinkCheckReqCreator::new();
        let mut i = 1; while i < 1 { c.data[i] = tape::u8(); i += 1; }
        let b = c.build();
        assert!(b.len() == 1 && b[0] == 0x20 && c.cid() == 0x20, "C19 LinkCheckReqCreator: CID and length");
        match <DownlinkDUTCommand<'_> as MacCommandSet<'_>>::parse_one(b) {
            Ok((crate::certification::DownlinkDUTCommand::LinkCheckReq(p), n)) => { assert!(n == b.len(), "C19 parse consumes exactly what LinkCheckReqCreator built"); let pb = p.bytes(); let mut k = 0; while k < 0 { assert!(pb[k] == b[1 + k], "C19 LinkCheckReq payload bytes survive the round trip"); k += 1; } }
            _ => assert!(false, "C19 LinkCheckReqCreator output parses back as LinkCheckReq"),
        }
    }
    {
        let mut c = crate::certification::DutVersionsReqCreator::new();
        let mut i = 1; while i < 1 { c.data[i] = tape::u8(); i += 1; }
        let b = c.build();
        assert!(b.len() == 1 && b[0] == 0x7f && c.cid() == 0x7f, "C19 DutVersionsReqCreator: CID and length");
        match <DownlinkDUTCommand<'_> as MacCommandSet<'_>>::parse_one(b) {
            Ok((crate::certification::DownlinkDUTCommand::DutVersionsReq(p), n)) => { assert!(n == b.len(), "C19 parse consumes exactly what DutVersionsReqCreator built"); let pb = p.bytes(); let mut k = 0; while k < 0 { assert!(pb[k] == b[1 + k], "C19 DutVersionsReq payload bytes survive the round trip"); k += 1; } }
            _ => assert!(false, "C19 DutVersionsReqCreator output parses back as DutVersionsReq"),
        }
    }
}
/// every fixed-length creator of UplinkDUTCommand: build() parses back to the same command with the same payload bytes
pub(crate) fn roundtrip_UplinkDUTCommand() {
    {
        let mut c = crate::certification::RxAppCntAnsCreator::new();
        let mut i = 1; while i < 3 { c.data[i] = tape::u8(); i += 1; }
        let b = c.build();
        assert!(b.len() == 3 && b[0] == 0x09 && c.cid() == 0x09, "C19 RxAppCntAnsCreator: CID and length");
        match <UplinkDUTCommand<'_> as MacCommandSet<'_>>::parse_one(b) {
            Ok((crate::certification::UplinkDUTCommand::RxAppCntAns(p), n)) => { assert!(n == b.len(), "C19 parse consumes exactly what RxAppCntAnsCreator built"); let pb = p.bytes(); let mut k = 0; while k < 2 { assert!(pb[k] == b[1 + k], "C19 RxAppCntAns payload bytes survive the round trip"); k += 1; } }
            _ => assert!(false, "C19 RxAppCntAnsCreator output parses back as RxAppCntAns"),
        }
    }
    {
        let mut c = crate::certification::DutVersionsAnsCreator::new();
        let mut i = 1; while i < 13 { c.data[i] = tape::u8(); i += 1; }
        let b = c.build();
        assert!(b.len() == 13 && b[0] == 0x7f && c.cid() == 0x7f, "C19 DutVersionsAnsCreator: CID and length");
        match <UplinkDUTCommand<'_> as MacCommandSet<'_>>::parse_one(b) {
            Ok((crate::certification::UplinkDUTCommand::DutVersionsAns(p), n)) => { assert!(n == b.len(), "C19 parse consumes exactly what DutVersionsAnsCreator built"); let pb = p.bytes(); let mut k = 0; while k < 12 { assert!(pb[k] == b[1 + k], "C19 DutVersionsAns payload bytes survive the round trip"); k += 1; } }
            _ => assert!(false, "C19 DutVersionsAnsCreator output parses back as DutVersionsAns"),
        }
    }
}
/// every fixed-length creator of DownlinkRemoteSetup: build() parses back to the same command with the same payload bytes
pub(crate) fn roundtrip_DownlinkRemoteSetup() {
    {
        let mut c = crate::multicast::PackageVersionReqCreator::new();
        let mut i = 1; while i < 1 { c.data[i] = tape::u8(); i += 1; }
        let b = c.build();
        assert!(b.len() == 1 && b[0] == 0x00 && c.cid() == 0x00, "C19 PackageVersionReqCreator: CID and length");
        match <DownlinkRemoteSetup<'_> as MacCommandSet<'_>>::parse_one(b) {
            Ok((crate::multicast::DownlinkRemoteSetup::PackageVersionReq(p), n)) => { assert!(n == b.len(), "C19 parse consumes exactly what PackageVersionReqCreator built"); let pb = p.bytes(); let mut k = 0; while k < 0 { assert!(pb[k] == b[1 + k], "C19 PackageVersionReq payload bytes survive the round trip"); k += 1; } }
            _ => assert!(false, "C19 PackageVersionReqCreator output parses back as PackageVersionReq"),
        }
    }
    {
        let mut c = crate::multicast::McGroupStatusReqCreator::new();
        let mut i = 1; while i < 2 { c.data[i] = tape::u8(); i += 1; }
        let b = c.build();
        assert!(b.len() == 2 && b[0] == 0x01 && c.cid() == 0x01, "C19 McGroupStatusReqCreator: CID and length");
        match <DownlinkRemoteSetup<'_> as MacCommandSet<'_>>::parse_one(b) {
            Ok((crate::multicast::DownlinkRemoteSetup::McGroupStatusReq(p), n)) => { assert!(n == b.len(), "C19 parse consumes exactly what McGroupStatusReqCreator built"); let pb = p.bytes(); let mut k = 0; while k < 1 { assert!(pb[k] == b[1 + k], "C19 McGroupStatusReq payload bytes survive the round trip"); k += 1; } }
            _ => assert!(false, "C19 McGroupStatusReqCreator output parses back as McGroupStatusReq"),
        }
    }
    {
        let mut c = crate::multicast::McGroupSetupReqCreator::new();
        let mut i = 1; while i < 30 { c.data[i] = tape::u8(); i += 1; }
        let b = c.build();
        assert!(b.len() == 30 && b[0] == 0x02 && c.cid() == 0x02, "C19 McGroupSetupReqCreator: CID and length");
        match <DownlinkRemoteSetup<'_> as MacCommandSet<'_>>::parse_one(b) {
            Ok((crate::multicast::DownlinkRemoteSetup::McGroupSetupReq(p), n)) => { assert!(n == b.len(), "C19 parse consumes exactly what McGroupSetupReqCreator built"); let pb = p.bytes(); let mut k = 0; while k < 29 { assert!(pb[k] == b[1 + k], "C19 McGroupSetupReq payload bytes survive the round trip"); k += 1; } }
            _ => assert!(false, "C19 McGroupSetupReqCreator output parses back as McGroupSetupReq"),
        }
    }
    {
        let mut c = crate::multicast::McGroupDeleteReqCreator::new();
        let mut i = 1; while i < 2 { c.data[i] = tape::u8(); i += 1; }
        let b = c.build();
        assert!(b.len() == 2 && b[0] == 0x03 && c.cid() == 0x03, "C19 McGroupDeleteReqCreator: CID and length");
        match <DownlinkRemoteSetup<'_> as MacCommandSet<'_>>::parse_one(b) {
            Ok((crate::multicast::DownlinkRemoteSetup::McGroupDeleteReq(p), n)) => { assert!(n == b.len(), "C19 parse consumes exactly what McGroupDeleteReqCreator built"); let pb = p.bytes(); let mut k = 0; while k < 1 { assert!(pb[k] == b[1 + k], "C19 McGroupDeleteReq payload bytes survive the round trip"); k += 1; } }
            _ => assert!(false, "C19 McGroupDeleteReqCreator output parses back as McGroupDeleteReq"),
        }
    }
    {
        let mut c = crate::multicast::McClassCSessionReqCreator::new();
        let mut i = 1; while i < 11 { c.data[i] = tape::u8(); i += 1; }
        let b = c.build();
        assert!(b.len() == 11 && b[0] == 0x04 && c.cid() == 0x04, "C19 McClassCSessionReqCreator: CID and length");
        match <DownlinkRemoteSetup<'_> as MacCommandSet<'_>>::parse_one(b) {
            Ok((crate::multicast::DownlinkRemoteSetup::McClassCSessionReq(p), n)) => { assert!(n == b.len(), "C19 parse consumes exactly what McClassCSessionReqCreator built"); let pb = p.bytes(); let mut k = 0; while k < 10 { assert!(pb[k] == b[1 + k], "C19 McClassCSessionReq payload bytes survive the round trip"); k += 1; } }
            _ => assert!(false, "C19 McClassCSessionReqCreator output parses back as McClassCSessionReq"),
        }
    }
    {
        let mut c = crate::multicast::McClassBSessionReqCreator::new();
        let mut i = 1; while i < 11 { c.data[i] = tape::u8(); i += 1; }
        let b = c.build();
        assert!(b.len() == 11 && b[0] == 0x05 && c.cid() == 0x05, "C19 McClassBSessionReqCreator: CID and length");
        match <DownlinkRemoteSetup<'_> as MacCommandSet<'_>>::parse_one(b) {
            Ok((crate::multicast::DownlinkRemoteSetup::McClassBSessionReq(p), n)) => { assert!(n == b.len(), "C19 parse consumes exactly what McClassBSessionReqCreator built"); let pb = p.bytes(); let mut k = 0; while k < 10 { assert!(pb[k] == b[1 + k], "C19 McClassBSessionReq payload bytes survive the round trip"); k += 1; } }
            _ => assert!(false, "C19 McClassBSessionReqCreator output parses back as McClassBSessionReq"),
        }
    }
}
/// every fixed-length creator of UplinkRemoteSetup: build() parses back to the same command with the same payload bytes
pub(crate) fn roundtrip_UplinkRemoteSetup() {
    {
        let mut c = crate::multicast::PackageVersionAnsCreator::new();
        let mut i = 1; while i < 3 { c.data[i] = tape::u8(); i += 1; }
        let b = c.build();
        assert!(b.len() == 3 && b[0] == 0x00 && c.cid() == 0x00, "C19 PackageVersionAnsCreator: CID and length");
        match <UplinkRemoteSetup<'_> as MacCommandSet<'_>>::parse_one(b) {
            Ok((crate::multicast::UplinkRemoteSetup::PackageVersionAns(p), n)) => { assert!(n == b.len(), "C19 parse consumes exactly what PackageVersionAnsCreator built"); let pb = p.bytes(); let mut k = 0; while k < 2 { assert!(pb[k] == b[1 + k], "C19 PackageVersionAns payload bytes survive the round trip"); k += 1; } }
            _ => assert!(false, "C19 PackageVersionAnsCreator output parses back as PackageVersionAns"),
        }
    }
    {
        let mut c = crate::multicast::McGroupSetupAnsCreator::new();
        let mut i = 1; while i < 2 { c.data[i] = tape::u8(); i += 1; }
        let b = c.build();
        assert!(b.len() == 2 && b[0] == 0x02 && c.cid() == 0x02, "C19 McGroupSetupAnsCreator: CID and length");
        match <UplinkRemoteSetup<'_> as MacCommandSet<'_>>::parse_one(b) {
            Ok((crate::multicast::UplinkRemoteSetup::McGroupSetupAns(p), n)) => { assert!(n == b.len(), "C19 parse consumes exactly what McGroupSetupAnsCreator built"); let pb = p.bytes(); let mut k = 0; while k < 1 { assert!(pb[k] == b[1 + k], "C19 McGroupSetupAns payload bytes survive the round trip"); k += 1; } }
            _ => assert!(false, "C19 McGroupSetupAnsCreator output parses back as McGroupSetupAns"),
        }
    }
    {
        let mut c = crate::multicast::McGroupDeleteAnsCreator::new();
        let mut i = 1; while i < 2 { c.data[i] = tape::u8(); i += 1; }
        let b = c.build();
        assert!(b.len() == 2 && b[0] == 0x03 && c.cid() == 0x03, "C19 McGroupDeleteAnsCreator: CID and length");
        match <UplinkRemoteSetup<'_> as MacCommandSet<'_>>::parse_one(b) {
            Ok((crate::multicast::UplinkRemoteSetup::McGroupDeleteAns(p), n)) => { assert!(n == b.len(), "C19 parse consumes exactly what McGroupDeleteAnsCreator built"); let pb = p.bytes(); let mut k = 0; while k < 1 { assert!(pb[k] == b[1 + k], "C19 McGroupDeleteAns payload bytes survive the round trip"); k += 1; } }
            _ => assert!(false, "C19 McGroupDeleteAnsCreator output parses back as McGroupDeleteAns"),
        }
    }
    {
        let mut c = crate::multicast::McClassCSessionAnsCreator::new();
        let mut i = 1; while i < 5 { c.data[i] = tape::u8(); i += 1; }
        let b = c.build();
        assert!(b.len() == 5 && b[0] == 0x04 && c.cid() == 0x04, "C19 McClassCSessionAnsCreator: CID and length");
        match <UplinkRemoteSetup<'_> as MacCommandSet<'_>>::parse_one(b) {
            Ok((crate::multicast::UplinkRemoteSetup::McClassCSessionAns(p), n)) => { assert!(n == b.len(), "C19 parse consumes exactly what McClassCSessionAnsCreator built"); let pb = p.bytes(); let mut k = 0; while k < 4 { assert!(pb[k] == b[1 + k], "C19 McClassCSessionAns payload bytes survive the round trip"); k += 1; } }
            _ => assert!(false, "C19 McClassCSessionAnsCreator output parses back as McClassCSessionAns"),
        }
    }
    {
        let mut c = crate::multicast::McClassBSessionAnsCreator::new();
        let mut i = 1; while i < 5 { c.data[i] = tape::u8(); i += 1; }
        let b = c.build();
        assert!(b.len() == 5 && b[0] == 0x05 && c.cid() == 0x05, "C19 McClassBSessionAnsCreator: CID and length");
        match <UplinkRemoteSetup<'_> as MacCommandSet<'_>>::parse_one(b) {
            Ok((crate::multicast::UplinkRemoteSetup::McClassBSessionAns(p), n)) => { assert!(n == b.len(), "C19 parse consumes exactly what McClassBSessionAnsCreator built"); let pb = p.bytes(); let mut k = 0; while k < 4 { assert!(pb[k] == b[1 + k], "C19 McClassBSessionAns payload bytes survive the round trip"); k += 1; } }
            _ => assert!(false, "C19 McClassBSessionAnsCreator output parses back as McClassBSessionAns"),
        }
    }
}
