// Contracts + harnesses for lorawan-encoding MAC-command framing (C03 totality / iterator, C19 builder-parser round trips)
// @inject file=lorawan-encoding/src/maccommands.rs mod=verif_maccmd
// @job pkg=lorawan zflags=function-contracts,stubbing
// @requires common_tape
use super::*;
use crate::verif_tape as tape;
use crate::certification::{DownlinkDUTCommand, UplinkDUTCommand};
use crate::multicast::{DownlinkRemoteSetup, UplinkRemoteSetup};

// ---- command tables written from the specifications (LoRaWAN 1.0.4 ch. 5; TS009 certification protocol;
//      TS005 remote multicast setup), NOT from the #[cmd] attributes:  cid -> payload bytes needed after the CID
pub(crate) enum Need { Unknown, Fixed(usize), Rest, GroupStatus }
pub(crate) fn spec_down_mac(cid: u8) -> Need { match cid { 0x02 => Need::Fixed(2), 0x03 => Need::Fixed(4), 0x04 => Need::Fixed(1), 0x05 => Need::Fixed(4), 0x06 => Need::Fixed(0), 0x07 => Need::Fixed(5), 0x08 => Need::Fixed(1), 0x09 => Need::Fixed(1), 0x0A => Need::Fixed(4), 0x0D => Need::Fixed(5), _ => Need::Unknown } }
pub(crate) fn spec_up_mac(cid: u8) -> Need { match cid { 0x02 => Need::Fixed(0), 0x03 => Need::Fixed(1), 0x04 => Need::Fixed(0), 0x05 => Need::Fixed(1), 0x06 => Need::Fixed(2), 0x07 => Need::Fixed(1), 0x08 => Need::Fixed(0), 0x09 => Need::Fixed(0), 0x0A => Need::Fixed(1), 0x0D => Need::Fixed(0), _ => Need::Unknown } }
pub(crate) fn spec_down_dut(cid: u8) -> Need { match cid { 0x01 => Need::Fixed(0), 0x02 => Need::Fixed(0), 0x04 => Need::Fixed(1), 0x06 => Need::Fixed(1), 0x07 => Need::Rest, 0x08 => Need::Rest, 0x09 => Need::Fixed(0), 0x20 => Need::Fixed(0), 0x7f => Need::Fixed(0), _ => Need::Unknown } }
pub(crate) fn spec_up_dut(cid: u8) -> Need { match cid { 0x08 => Need::Rest, 0x09 => Need::Fixed(2), 0x7f => Need::Fixed(12), _ => Need::Unknown } }
pub(crate) fn spec_down_mc(cid: u8) -> Need { match cid { 0x00 => Need::Fixed(0), 0x01 => Need::Fixed(1), 0x02 => Need::Fixed(29), 0x03 => Need::Fixed(1), 0x04 => Need::Fixed(10), 0x05 => Need::Fixed(10), _ => Need::Unknown } }
pub(crate) fn spec_up_mc(cid: u8) -> Need { match cid { 0x00 => Need::Fixed(2), 0x01 => Need::GroupStatus, 0x02 => Need::Fixed(1), 0x03 => Need::Fixed(1), 0x04 => Need::Fixed(4), 0x05 => Need::Fixed(4), _ => Need::Unknown } }

/// Some(n): a whole command of n bytes (CID included) starts the stream; None: truncated
pub(crate) fn spec_whole(need: &Need, data: &[u8]) -> Option<usize> {
    match need {
        Need::Unknown => None,
        Need::Fixed(l) => if data.len() >= 1 + l { Some(1 + l) } else { None },
        // no length field: the payload runs to the end of the frame and has at least one byte
        Need::Rest => if data.len() >= 2 { Some(data.len()) } else { None },
        // status byte, then 5 bytes per bit set in AnsGroupMask (low nibble)
        Need::GroupStatus => if data.len() >= 2 { let l = 1 + 1 + 5 * (data[1] & 0x0f).count_ones() as usize; if data.len() >= l { Some(l) } else { None } } else { None },
    }
}

pub(crate) const BUF: usize = 32;

/// contract of `<T as MacCommandSet>::parse_one` (requires data non-empty)
fn parse_one_contract<'a, T: MacCommandSet<'a> + SerializableMacCommand>(data: &'a [u8], need: Need, touch: fn(&T)) {
    let r = T::parse_one(data);
    match r {
        Ok((cmd, n)) => {
            assert!(n >= 1 && n <= data.len(), "C03 a parsed command lies inside the input");
            assert!(spec_whole(&need, data) == Some(n), "C03 parse_one consumes exactly the whole command the specification defines");
            assert!(cmd.cid() == data[0], "C03/C19 CID of the parsed command");
            assert!(cmd.payload_len() == n - 1 && cmd.payload_bytes().len() == n - 1, "C03 command length = consumed bytes");
            let pb = cmd.payload_bytes();
            let mut i = 0;
            while i < BUF { if i + 1 < n { assert!(pb[i] == data[1 + i], "C03 payload = the bytes after the CID"); } i += 1; }
            touch(&cmd);   // every accessor returns (value or Err), none panics
            kani::cover!(true, "verif-reached: Ok");
        }
        Err(ParseError::UnknownCid(c)) => {
            assert!(c == data[0] && matches!(need, Need::Unknown), "C03 UnknownCid exactly for CIDs the set does not define");
            kani::cover!(true, "verif-reached: UnknownCid");
        }
        Err(ParseError::Truncated { cid }) => {
            assert!(cid == data[0] && !matches!(need, Need::Unknown) && spec_whole(&need, data).is_none(), "C03 Truncated exactly when the stream ends inside a defined command");
            kani::cover!(true, "verif-reached: Truncated");
        }
    }
}

fn any_stream() -> ([u8; BUF], usize) {
    tape::init();
    let b: [u8; BUF] = tape::arr();
    let n = 1 + tape::below(BUF);
    (b, n)
}

// @verif props=C03 obligation=DownlinkMacCommand::parse_one.contract label=proved-complete tier=quick bound="every byte string of length 1..32 (longest command 6 bytes)"
#[kani::proof]
#[kani::unwind(34)]
fn c03_parse_one_downlink_mac() { let (b, n) = any_stream(); parse_one_contract::<DownlinkMacCommand<'_>>(&b[..n], spec_down_mac(b[0]), touch_DownlinkMacCommand) }
// @verif props=C03 obligation=UplinkMacCommand::parse_one.contract label=proved-complete tier=quick bound="every byte string of length 1..32"
#[kani::proof]
#[kani::unwind(34)]
fn c03_parse_one_uplink_mac() { let (b, n) = any_stream(); parse_one_contract::<UplinkMacCommand<'_>>(&b[..n], spec_up_mac(b[0]), touch_UplinkMacCommand) }
// @verif props=C03 obligation=DownlinkDUTCommand::parse_one.contract label=proved-complete tier=quick bound="every byte string of length 1..32 (variable-length commands run to the end of the input)"
#[kani::proof]
#[kani::unwind(34)]
fn c03_parse_one_downlink_dut() { let (b, n) = any_stream(); parse_one_contract::<DownlinkDUTCommand<'_>>(&b[..n], spec_down_dut(b[0]), touch_DownlinkDUTCommand) }
// @verif props=C03 obligation=UplinkDUTCommand::parse_one.contract label=proved-complete tier=quick bound="every byte string of length 1..32"
#[kani::proof]
#[kani::unwind(34)]
fn c03_parse_one_uplink_dut() { let (b, n) = any_stream(); parse_one_contract::<UplinkDUTCommand<'_>>(&b[..n], spec_up_dut(b[0]), touch_UplinkDUTCommand) }
// @verif props=C03 obligation=DownlinkRemoteSetup::parse_one.contract label=proved-complete tier=quick bound="every byte string of length 1..32 (longest command 30 bytes)"
#[kani::proof]
#[kani::unwind(34)]
fn c03_parse_one_downlink_mc() { let (b, n) = any_stream(); parse_one_contract::<DownlinkRemoteSetup<'_>>(&b[..n], spec_down_mc(b[0]), touch_DownlinkRemoteSetup) }
// @verif props=C03 obligation=UplinkRemoteSetup::parse_one.contract label=proved-complete tier=quick bound="every byte string of length 1..32 (McGroupStatusAns up to 22 bytes)"
#[kani::proof]
#[kani::unwind(34)]
fn c03_parse_one_uplink_mc() { let (b, n) = any_stream(); parse_one_contract::<UplinkRemoteSetup<'_>>(&b[..n], spec_up_mc(b[0]), touch_UplinkRemoteSetup) }

// ------------------------------------------------------------------ MacCommands::next from an ARBITRARY iterator state
fn next_contract<'a, T: MacCommandSet<'a> + SerializableMacCommand>(data: &'a [u8], need_of: fn(u8) -> Need) {
    let errored = tape::boolean();
    let mut it: MacCommands<'a, T> = MacCommands { data, errored, _commands: PhantomData };
    let r = it.next();
    if errored || data.is_empty() {
        assert!(r.is_none() && it.errored == errored && it.data.len() == data.len(), "C03 an exhausted or failed iterator stays stopped");
        kani::cover!(true, "verif-reached: stopped");
        return;
    }
    match r {
        Some(Ok(cmd)) => {
            let n = 1 + cmd.payload_len();
            assert!(spec_whole(&need_of(data[0]), data) == Some(n), "C03 the iterator yields whole commands only");
            assert!(!it.errored && it.data.len() == data.len() - n && it.data.as_ptr() == data[n..].as_ptr(), "C03 the rest of the stream is exactly the suffix after the command: lengths add up to a prefix, strictly shorter each step (termination)");
            kani::cover!(true, "verif-reached: yielded a command");
        }
        Some(Err(_)) => {
            assert!(it.errored, "C03 after the first error the iterator is fused: at most one error");
            assert!(spec_whole(&need_of(data[0]), data).is_none(), "C03 an error only where no whole command starts");
            kani::cover!(true, "verif-reached: yielded the error");
        }
        None => assert!(false, "C03 a non-empty, non-failed stream yields something"),
    }
}
// @verif props=C03 obligation=MacCommands<DownlinkMacCommand>::next.contract label=proved-complete tier=quick bound="any iterator state: any remaining bytes (0..32), any errored flag"
#[kani::proof]
#[kani::unwind(34)]
fn c03_iter_next_downlink_mac() { tape::init(); let b: [u8; BUF] = tape::arr(); let n = tape::below(BUF + 1); next_contract::<DownlinkMacCommand<'_>>(&b[..n], spec_down_mac) }
// @verif props=C03 obligation=MacCommands<UplinkMacCommand>::next.contract label=proved-complete tier=quick bound="any iterator state"
#[kani::proof]
#[kani::unwind(34)]
fn c03_iter_next_uplink_mac() { tape::init(); let b: [u8; BUF] = tape::arr(); let n = tape::below(BUF + 1); next_contract::<UplinkMacCommand<'_>>(&b[..n], spec_up_mac) }
// @verif props=C03 obligation=MacCommands<DownlinkDUTCommand>::next.contract label=proved-complete tier=quick bound="any iterator state"
#[kani::proof]
#[kani::unwind(34)]
fn c03_iter_next_downlink_dut() { tape::init(); let b: [u8; BUF] = tape::arr(); let n = tape::below(BUF + 1); next_contract::<DownlinkDUTCommand<'_>>(&b[..n], spec_down_dut) }
// @verif props=C03 obligation=MacCommands<UplinkDUTCommand>::next.contract label=proved-complete tier=quick bound="any iterator state"
#[kani::proof]
#[kani::unwind(34)]
fn c03_iter_next_uplink_dut() { tape::init(); let b: [u8; BUF] = tape::arr(); let n = tape::below(BUF + 1); next_contract::<UplinkDUTCommand<'_>>(&b[..n], spec_up_dut) }
// @verif props=C03 obligation=MacCommands<DownlinkRemoteSetup>::next.contract label=proved-complete tier=quick bound="any iterator state"
#[kani::proof]
#[kani::unwind(34)]
fn c03_iter_next_downlink_mc() { tape::init(); let b: [u8; BUF] = tape::arr(); let n = tape::below(BUF + 1); next_contract::<DownlinkRemoteSetup<'_>>(&b[..n], spec_down_mc) }
// @verif props=C03 obligation=MacCommands<UplinkRemoteSetup>::next.contract label=proved-complete tier=quick bound="any iterator state"
#[kani::proof]
#[kani::unwind(34)]
fn c03_iter_next_uplink_mc() { tape::init(); let b: [u8; BUF] = tape::arr(); let n = tape::below(BUF + 1); next_contract::<UplinkRemoteSetup<'_>>(&b[..n], spec_up_mc) }

// GENERATED by tools/gen_enc_harness.py from /repo/lorawan-encoding/src -- do not edit by hand
/// call every argument-less accessor of the parsed command: none may panic (C03)
pub(crate) fn touch_DownlinkMacCommand(c: &DownlinkMacCommand<'_>) {
    match c {
        DownlinkMacCommand::LinkCheckAns(p) => { let _ = p.bytes(); let _ = p.gateway_count(); let _ = p.margin(); }
        DownlinkMacCommand::LinkADRReq(p) => { let _ = p.bytes(); let _ = p.channel_mask(); let _ = p.data_rate(); let _ = p.redundancy(); let _ = p.tx_power(); }
        DownlinkMacCommand::DutyCycleReq(p) => { let _ = p.bytes(); let _ = p.max_duty_cycle_raw(); }
        DownlinkMacCommand::RXParamSetupReq(p) => { let _ = p.bytes(); let _ = p.dl_settings(); let _ = p.frequency(); }
        DownlinkMacCommand::DevStatusReq(p) => { let _ = p.bytes();  }
        DownlinkMacCommand::NewChannelReq(p) => { let _ = p.bytes(); let _ = p.channel_index(); let _ = p.data_rate_range(); let _ = p.frequency(); }
        DownlinkMacCommand::RXTimingSetupReq(p) => { let _ = p.bytes(); let _ = p.delay(); }
        DownlinkMacCommand::TXParamSetupReq(p) => { let _ = p.bytes(); let _ = p.downlink_dwell_time(); let _ = p.max_eirp(); let _ = p.uplink_dwell_time(); }
        DownlinkMacCommand::DlChannelReq(p) => { let _ = p.bytes(); let _ = p.channel_index(); let _ = p.frequency(); }
        DownlinkMacCommand::DeviceTimeAns(p) => { let _ = p.bytes(); let _ = p.nano_seconds(); let _ = p.seconds(); }
    }
}
/// call every argument-less accessor of the parsed command: none may panic (C03)
pub(crate) fn touch_UplinkMacCommand(c: &UplinkMacCommand<'_>) {
    match c {
        UplinkMacCommand::LinkCheckReq(p) => { let _ = p.bytes();  }
        UplinkMacCommand::LinkADRAns(p) => { let _ = p.bytes(); let _ = p.ack(); let _ = p.channel_mask_ack(); let _ = p.data_rate_ack(); let _ = p.powert_ack(); }
        UplinkMacCommand::DutyCycleAns(p) => { let _ = p.bytes();  }
        UplinkMacCommand::RXParamSetupAns(p) => { let _ = p.bytes(); let _ = p.ack(); let _ = p.channel_ack(); let _ = p.rx1_dr_offset_ack(); let _ = p.rx2_data_rate_ack(); }
        UplinkMacCommand::DevStatusAns(p) => { let _ = p.bytes(); let _ = p.battery(); let _ = p.margin(); }
        UplinkMacCommand::NewChannelAns(p) => { let _ = p.bytes(); let _ = p.ack(); let _ = p.channel_freq_ack(); let _ = p.data_rate_range_ack(); }
        UplinkMacCommand::RXTimingSetupAns(p) => { let _ = p.bytes();  }
        UplinkMacCommand::TXParamSetupAns(p) => { let _ = p.bytes();  }
        UplinkMacCommand::DlChannelAns(p) => { let _ = p.bytes(); let _ = p.ack(); let _ = p.channel_freq_ack(); let _ = p.uplink_freq_ack(); }
        UplinkMacCommand::DeviceTimeReq(p) => { let _ = p.bytes();  }
    }
}
/// call every argument-less accessor of the parsed command: none may panic (C03)
pub(crate) fn touch_DownlinkDUTCommand(c: &DownlinkDUTCommand<'_>) {
    match c {
        DownlinkDUTCommand::DutResetReq(p) => { let _ = p.bytes();  }
        DownlinkDUTCommand::DutJoinReq(p) => { let _ = p.bytes();  }
        DownlinkDUTCommand::AdrBitChangeReq(p) => { let _ = p.bytes(); let _ = p.adr_enable(); }
        DownlinkDUTCommand::TxPeriodicityChangeReq(p) => { let _ = p.bytes(); let _ = p.periodicity(); }
        DownlinkDUTCommand::TxFramesCtrlReq(p) => { let _ = p.bytes(); let _ = p.frame_type_override(); }
        DownlinkDUTCommand::EchoIncPayloadReq(p) => { let _ = p.bytes(); let _ = p.payload(); }
        DownlinkDUTCommand::RxAppCntReq(p) => { let _ = p.bytes();  }
        DownlinkDUTCommand::LinkCheckReq(p) => { let _ = p.bytes();  }
        DownlinkDUTCommand::DutVersionsReq(p) => { let _ = p.bytes();  }
    }
}
/// call every argument-less accessor of the parsed command: none may panic (C03)
pub(crate) fn touch_UplinkDUTCommand(c: &UplinkDUTCommand<'_>) {
    match c {
        UplinkDUTCommand::EchoIncPayloadAns(p) => { let _ = p.bytes(); let _ = p.payload(); }
        UplinkDUTCommand::RxAppCntAns(p) => { let _ = p.bytes();  }
        UplinkDUTCommand::DutVersionsAns(p) => { let _ = p.bytes();  }
    }
}
/// call every argument-less accessor of the parsed command: none may panic (C03)
pub(crate) fn touch_DownlinkRemoteSetup(c: &DownlinkRemoteSetup<'_>) {
    match c {
        DownlinkRemoteSetup::PackageVersionReq(p) => { let _ = p.bytes();  }
        DownlinkRemoteSetup::McGroupStatusReq(p) => { let _ = p.bytes(); let _ = p.req_group_mask(); }
        DownlinkRemoteSetup::McGroupSetupReq(p) => { let _ = p.bytes(); let _ = p.max_mc_fcount(); let _ = p.mc_addr(); let _ = p.mc_group_id_header(); let _ = p.min_mc_fcount(); }
        DownlinkRemoteSetup::McGroupDeleteReq(p) => { let _ = p.bytes(); let _ = p.mc_group_id_header(); }
        DownlinkRemoteSetup::McClassCSessionReq(p) => { let _ = p.bytes();  }
        DownlinkRemoteSetup::McClassBSessionReq(p) => { let _ = p.bytes();  }
    }
}
/// call every argument-less accessor of the parsed command: none may panic (C03)
pub(crate) fn touch_UplinkRemoteSetup(c: &UplinkRemoteSetup<'_>) {
    match c {
        UplinkRemoteSetup::PackageVersionAns(p) => { let _ = p.bytes(); let _ = p.package_identifier(); let _ = p.package_version(); }
        UplinkRemoteSetup::McGroupStatusAns(p) => { let _ = p.bytes(); let _ = p.ans_group_mask(); let _ = p.item_iterator(); let _ = p.nb_total_groups(); }
        UplinkRemoteSetup::McGroupSetupAns(p) => { let _ = p.bytes(); let _ = p.mc_group_id_header(); }
        UplinkRemoteSetup::McGroupDeleteAns(p) => { let _ = p.bytes(); let _ = p.mc_group_id_header(); let _ = p.mc_group_undefined(); }
        UplinkRemoteSetup::McClassCSessionAns(p) => { let _ = p.bytes();  }
        UplinkRemoteSetup::McClassBSessionAns(p) => { let _ = p.bytes();  }
    }
}
