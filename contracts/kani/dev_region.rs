// Helpers for lorawan-device/src/region/mod.rs: construct region configurations for harnesses of other modules.
// @inject file=lorawan-device/src/region/mod.rs mod=verif_region
// @job pkg=lorawan-device zflags=function-contracts,stubbing
// @requires common_tape
use super::*;
use crate::verif_tape as tape;

pub(crate) const ALL_REGIONS: [Region; 9] = [
    Region::AS923_1, Region::AS923_2, Region::AS923_3, Region::AS923_4, Region::AU915,
    Region::EU868, Region::EU433, Region::IN865, Region::US915,
];

/// a freshly constructed configuration of a symbolically chosen region
pub(crate) fn any_fresh_region() -> Configuration {
    Configuration::new(ALL_REGIONS[tape::below(9)])
}

/// region-defined data rate according to the region's own table (used on the spec side of contracts)
pub(crate) fn dr_defined(c: &Configuration, dr: u8) -> bool {
    dr < NUM_DATARATES && c.get_datarate(dr).is_some()
}
