// Helpers for lorawan-device/src/region/mod.rs: construct region configurations for harnesses of other modules.
// @inject file=lorawan-device/src/region/mod.rs mod=verif_region
// @job pkg=lorawan-device zflags=function-contracts,stubbing
// @requires common_tape
use super::*;
use crate::verif_tape as tape;

/// RNG contract-stub (A-rng): every draw is an arbitrary value chosen by the verifier, so ALL random streams
/// are explored; `draws` counts them (ghost).
/// Progress obligation: the first `free` draws are arbitrary; afterwards the stream delivers `accept`, a draw the
/// harness derives from the invariant (e.g. the index of an enabled, defined channel).  A retry loop therefore
/// exits after at most free+1 iterations on these streams, and the existence of `accept` is exactly the
/// "usable channel exists" part of the contract.  Unbounded rejection by an adversarial stream is excluded only
/// by A-rng (fair RNG), which no deductive argument can replace.
pub(crate) struct TapeRng { pub draws: u32, pub free: u32, pub accept: u32 }
impl RngCore for TapeRng {
    fn next_u32(&mut self) -> u32 {
        self.draws += 1;
        // progress obligation made explicit: once the stream delivers the accepting draw, a retry loop has to exit.
        // (Without this, a loop that can no longer reach the accepting value only shows up as an unwinding failure,
        // which the driver must treat as "bound too small / undecided".)
        assert!(self.draws <= self.free + 4, "C09 progress: channel selection exits once the random stream delivers a draw that designates a usable channel");
        if self.draws <= self.free { tape::stub_u8() as u32 | ((tape::stub_u8() as u32) << 8) } else { self.accept }
    }
    fn next_u64(&mut self) -> u64 { self.next_u32() as u64 }
    fn fill_bytes(&mut self, dest: &mut [u8]) { let mut i = 0; while i < dest.len() { dest[i] = 0; i += 1; } }
    fn try_fill_bytes(&mut self, dest: &mut [u8]) -> Result<(), rand_core::Error> { self.fill_bytes(dest); Ok(()) }
}


pub(crate) const ALL_REGIONS: [Region; 9] = [
    Region::AS923_1, Region::AS923_2, Region::AS923_3, Region::AS923_4, Region::AU915,
    Region::EU868, Region::EU433, Region::IN865, Region::US915,
];

/// a freshly constructed configuration of a symbolically chosen region
pub(crate) fn any_fresh_region() -> Configuration {
    Configuration::new(ALL_REGIONS[tape::below(9)])
}

/// region-defined data rate according to the region's own table (used on the spec side of contracts)
pub(crate) fn dr_defined(c: &Configuration, dr: u8) -> bool {
    dr < NUM_DATARATES && c.get_datarate(dr).is_some()
}

// ================================================================================================
// Region tables through the crate-internal API, all 9 regions (C04 totality, C09 power, C10 RX1/RX2 data rates)
// ================================================================================================
fn region_at(i: usize) -> Configuration { Configuration::new(ALL_REGIONS[i]) }
fn is_dynamic(i: usize) -> bool { i != 4 && i != 8 }

/// regional MaxEIRP (RP002): EU868 16, EU433 12 (12.15), IN865 30, AS923 16, US915 30, AU915 30 dBm
pub(crate) fn spec_max_eirp(i: usize) -> u8 { match i { 0 | 1 | 2 | 3 => 16, 4 => 30, 5 => 16, 6 => 12, 7 => 30, _ => 30 } }

// @verif props=C04,C09 obligation=Configuration::check_tx_power.contract label=proved-complete tier=quick
#[kani::proof]
fn c09_check_tx_power_all_regions() {
    tape::init();
    let i = tape::below(9);
    let r = region_at(i);
    let p = tape::u8();
    match r.check_tx_power(p) {
        Some(Some(dbm)) => {
            assert!(dbm <= spec_max_eirp(i), "C09 a TX power index never maps above the regional maximum EIRP");
            assert!(p <= 14, "TXPower 15 / RFU indices are not accepted");
            // RP002: TXPower n = MaxEIRP - 2n dB (US915 additionally capped at the 21 dBm conducted limit)
            let want = spec_max_eirp(i) as i32 - 2 * p as i32;
            assert!(dbm as i32 == want || (i == 8 && dbm == 21 && want > 21), "C09 TXPower n = MaxEIRP - 2n");
        }
        Some(None) => assert!(false, "check_tx_power never answers 'keep current' by itself"),
        None => {}
    }
    kani::cover!(r.check_tx_power(p).is_none(), "verif-reached: refused");
    kani::cover!(r.check_tx_power(p).is_some(), "verif-reached: accepted");
}

// @verif props=C04,C08 obligation=Configuration::rx1_dr_offset_validate/frequency_valid.total label=proved-complete tier=quick
#[kani::proof]
fn c04_region_validators_total() {
    tape::init();
    let i = tape::below(9);
    let r = region_at(i);
    let v = tape::u8();
    let o = r.rx1_dr_offset_validate(v);
    assert!(o.is_none() || o == Some(v), "rx1_dr_offset_validate returns its argument or nothing");
    let max = match i { 0 | 1 | 2 | 3 | 7 => 7, 4 | 5 | 6 => 5, _ => 3 };   // RP002 RX1DROffset ranges
    assert!(o.is_some() == (v <= max), "C08 RX1DROffset accepted exactly inside the regional range");
    let f = tape::u32();
    let _ = r.frequency_valid(f);
    let _ = r.has_fixed_channel_plan();
    let _ = r.get_rx2_frequency();
    kani::cover!(o.is_some(), "verif-reached: offset ok");
    kani::cover!(o.is_none(), "verif-reached: offset refused");
}

/// RP002 RX1 data rate tables, where I can state them with confidence offline (DESIGN C10)
pub(crate) fn spec_rx1_dr(i: usize, up: u8, off: u8) -> Option<u8> {
    let (up_i, off_i) = (up as i32, off as i32);
    match i {
        5 | 6 => if up <= 5 && off <= 5 { Some((up_i - off_i).max(0) as u8) } else { None },                // EU868 / EU433
        8 => if up <= 4 && off <= 3 { Some((10 + up_i - off_i).clamp(8, 13) as u8) } else { None },        // US915
        4 => if up <= 6 && off <= 5 { Some((8 + up_i - off_i).clamp(8, 13) as u8) } else { None },         // AU915
        _ => if up <= 5 && off <= 5 { Some((up_i - off_i).max(0) as u8) } else { None },                   // AS923-x / IN865 (dwell time 0)
    }
}

// @verif props=C04,C10 obligation=Configuration::get_rx_datarate.contract label=proved-complete tier=quick
#[kani::proof]
fn c10_get_rx_datarate_all_regions() {
    tape::init();
    let i = tape::below(9);
    let r = region_at(i);
    let up = tape::u8() & 0x0f;
    let off = tape::u8();
    kani::assume(r.rx1_dr_offset_validate(off).is_some());      // wf_conf: the stored offset was validated
    let w1 = r.get_rx_datarate(DR::from(up), off, &Window::_1) as u8;
    let w2 = r.get_rx_datarate(DR::from(up), off, &Window::_2) as u8;
    if let Some(want) = spec_rx1_dr(i, up, off) {
        assert!(w1 == want, "C10 RX1 data rate == regional table(uplink DR, RX1DROffset)");
    }
    // RX2 default data rate per RP002: EU868 DR0, EU433 DR0, IN865 DR2, AS923 DR2, US915 DR8, AU915 DR8
    let want2 = match i { 5 | 6 => 0, 4 | 8 => 8, _ => 2 };
    assert!(w2 == want2 && dr_defined(&r, w2), "C10 regional default RX2 data rate, and it is region-defined");
    // whatever the table says, the window uses a region-defined LoRa rate after the documented fall-back
    let used = if dr_defined(&r, w1) { w1 } else { w2 };
    assert!(dr_defined(&r, used), "C10 every window uses a LoRa data rate the region defines");
    kani::cover!(!dr_defined(&r, w1), "verif-reached: fall-back needed");
    kani::cover!(dr_defined(&r, w1), "verif-reached: table hit");
}
